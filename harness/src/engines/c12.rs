//! C12: HTTP request handling. Same case grammar as oracle/eng_c12.ml:
//!   C <0|1>                         compress_responses
//!   G <n>                           the manager's link report now has n components (0 at start-up)
//!   R <id> <kind> <sub:0|1>         register a processor; kind =
//!        rib:<hexbase> | routers:<hexbase> | mrt:<hexbase> | info:<hexbase> | stub:<hexprefix>:<code>
//!   D <id>                          the owner drops the processor registered as <id>
//!   Q <method> <hexpath> <hexquery|-> <name:hexvalue,...|->      one request
//! The initial Resources are those of Manager::new() (/status/graph, /status/traces).
//! Observation per request: `<status>,<gzip|->[,<r|e>]` (4xx: reason present / empty),
//! `PANIC`, or `rejected` (the http crate refuses the bytes before any handler runs).
use crate::util::ops;
use rotonda::verif::http::hyper::{self, Body, Request};
use rotonda::verif::http::{self as vh, ProcessRequest, Resources, Server};
use std::collections::HashMap;
use std::io::Read;
use std::sync::Arc;

const METHODS: [&str; 11] =
    ["GET", "POST", "HEAD", "PUT", "DELETE", "OPTIONS", "PATCH", "get", "GETX", "CONNECT", "TRACE"];

pub const INFO_ROUTER_ID: &str = "rtr-a";
pub const INFO_ADDR: &str = "10.0.0.1";

fn unhex(s: &str) -> Vec<u8> {
    if s == "-" || s == "_" { return vec![]; }
    (0..s.len() / 2).map(|i| u8::from_str_radix(&s[2 * i..2 * i + 2], 16).unwrap()).collect()
}
fn unhex_str(s: &str) -> String { String::from_utf8(unhex(s)).unwrap() }

enum Held {
    Proc(Arc<dyn ProcessRequest>),
    Info(vh::RouterInfoHandle),
}

fn build_request(op: &[&str]) -> Option<Request<Body>> {
    let m: usize = op[1].parse().unwrap();
    let mut uri = unhex(op[2]);
    if op[3] != "-" {
        uri.push(b'?');
        uri.extend(unhex(op[3]));
    }
    let uri = hyper::Uri::from_maybe_shared(uri).ok()?;
    let mut b = Request::builder().method(METHODS[m % METHODS.len()]).uri(uri);
    if op.len() > 4 && op[4] != "-" {
        for h in op[4].split(',') {
            let (n, v) = h.split_once(':').unwrap();
            let v = hyper::header::HeaderValue::from_bytes(&unhex(v)).ok()?;
            b = b.header(n, v);
        }
    }
    b.body(Body::empty()).ok()
}

/// One request through the real `Server::handle_request`; the observation token of the module doc.
fn observe(rt: &tokio::runtime::Runtime, req: Request<Body>, metrics: &rotonda::metrics::Collection, resources: &Resources) -> String {
    let res = std::panic::catch_unwind(std::panic::AssertUnwindSafe(|| {
        rt.block_on(async {
            let res = Server::verif_handle_request(req, metrics, resources).await;
            let status = res.status().as_u16();
            let encs: Vec<String> = res.headers().get_all("Content-Encoding").iter()
                .map(|v| String::from_utf8_lossy(v.as_bytes()).to_string()).collect();
            let body = hyper::body::to_bytes(res.into_body()).await.unwrap().to_vec();
            (status, encs, body)
        })
    }));
    match res {
        Err(e) => { if std::env::var("C12_PANIC_MSG").is_ok() { eprintln!("panic: {}", crate::util::panic_msg(&e)); } "PANIC".into() }
        Ok((status, encs, body)) => {
            let (enc, plain) = match encs.as_slice() {
                [] => ("-".to_string(), Some(body)),
                [e] if e == "gzip" => {
                    let mut d = vh::flate2::read::GzDecoder::new(&body[..]);
                    let mut v = vec![];
                    match d.read_to_end(&mut v) { Ok(_) => ("gzip".to_string(), Some(v)), Err(_) => ("badgzip".to_string(), None) }
                }
                other => (format!("enc[{}]", other.join("+")), None),
            };
            let mut t = format!("{status},{enc}");
            if (400..500).contains(&status) {
                t.push_str(match plain { Some(b) if !b.is_empty() => ",r", _ => ",e" });
            }
            t
        }
    }
}

fn stub(pfx: String, code: u16) -> Arc<dyn ProcessRequest> {
    let f = move |req: &Request<Body>| {
        use rotonda::http::PercentDecodedPath;
        if req.uri().decoded_path().starts_with(pfx.as_str()) {
            Some(hyper::Response::builder().status(code).body(Body::from("stub")).unwrap())
        } else {
            None
        }
    };
    Arc::new(f)
}

pub fn run_case(line: &str) -> String {
    let rt = tokio::runtime::Builder::new_current_thread().enable_all().build().unwrap();
    let manager = rotonda::manager::Manager::new();
    let mut resources: Resources = manager.http_resources();
    let metrics = rotonda::metrics::Collection::default();
    let mut held: HashMap<String, Held> = HashMap::new();
    let mut out: Vec<String> = vec![];
    for op in ops(line) {
        match op[0] {
            "C" => resources.verif_set_compress_responses(op[1] == "1"),
            "G" => manager.verif_set_link_report(op[1].parse().unwrap()),
            "R" => {
                let id = op[1].to_string();
                let sub = op[3] == "1";
                let parts: Vec<&str> = op[2].split(':').collect();
                let base = unhex_str(parts[1]);
                let h = match parts[0] {
                    "rib" => Held::Proc(vh::physical_prefixes_api(&base)),
                    "routers" => Held::Proc(vh::router_list_api(resources.clone(), &base)),
                    "mrt" => Held::Proc(vh::mrt_api_without_update_path(&base)),
                    "info" => Held::Info(
                        vh::router_info_api(resources.clone(), &base, INFO_ROUTER_ID, INFO_ADDR.parse().unwrap()).0,
                    ),
                    "stub" => Held::Proc(stub(base.clone(), parts[2].parse().unwrap())),
                    k => panic!("bad kind {k}"),
                };
                let p = match &h { Held::Proc(p) => p.clone(), Held::Info(i) => i.processor.clone() };
                resources.register(Arc::downgrade(&p), "verif".into(), "verif", &base, sub);
                drop(p);
                held.insert(id, h);
            }
            "D" => { held.remove(op[1]); }
            "Q" => {
                let req = match build_request(&op) { Some(r) => r, None => { out.push("rejected".into()); continue; } };
                out.push(observe(&rt, req, &metrics, &resources));
            }
            _ => panic!("bad op {:?}", op),
        }
    }
    drop(manager);
    out.join(" ")
}


// ===================================================================================================
// Concurrency stages (supporting evidence for Http/ConcModel.v; real threads, real code)
// ===================================================================================================

pub fn special(name: &str, args: &[String]) -> bool {
    match name {
        "c12-regrace" => { regrace(args); true }
        "c12-statelock" => { statelock(args); true }
        _ => false,
    }
}

/// splitmix64: the workload of a stage is a function of its seed only
struct Sm(u64);
impl Sm {
    fn next(&mut self) -> u64 {
        self.0 = self.0.wrapping_add(0x9e3779b97f4a7c15);
        let mut z = self.0;
        z = (z ^ (z >> 30)).wrapping_mul(0xbf58476d1ce4e5b9);
        z = (z ^ (z >> 27)).wrapping_mul(0x94d049bb133111eb);
        z ^ (z >> 31)
    }
    fn below(&mut self, n: u64) -> u64 { self.next() % n }
}

fn hexs(s: &str) -> String { s.bytes().map(|b| format!("{b:02x}")).collect() }

#[derive(Clone)]
enum ROp { Reg { id: String, base: String, code: u16, sub: bool }, Drop { id: String } }

/// c12-regrace <threads> <endpoints-per-thread> <rounds> <seed>
///
/// Per round: `threads` components register their endpoints at the same moment on clones of ONE
/// `Resources` (that of `Manager::new()`) through the real `Resources::register`, some of them drop a
/// processor again while the others are still registering. An endpoint is a path prefix `/c<t>/e<j>/`
/// with a main resource, a sub-resource shadowing it, or both (in either order). Afterwards every
/// endpoint is requested through the real `Server::handle_request`; by C12_conc_requests_as_sequential
/// the answers must be those of ANY sequential history of the same calls (here: the threads' programs
/// one after the other). Prints: verdict line, that sequential history as a case of engine c12 (for the
/// extracted model), the observed answers.
fn regrace(args: &[String]) {
    let threads: usize = args.first().and_then(|s| s.parse().ok()).unwrap_or(8);
    let per: usize = args.get(1).and_then(|s| s.parse().ok()).unwrap_or(48);
    let rounds: usize = args.get(2).and_then(|s| s.parse().ok()).unwrap_or(10);
    let seed: u64 = args.get(3).and_then(|s| s.parse().ok()).unwrap_or(1);
    let rt = tokio::runtime::Builder::new_current_thread().enable_all().build().unwrap();
    let metrics = rotonda::metrics::Collection::default();
    let mut total_regs = 0usize;
    let mut total_reqs = 0usize;
    let mut last = (String::new(), String::new());
    for round in 0..rounds {
        let mut rng = Sm(seed.wrapping_mul(1_000_003).wrapping_add(round as u64));
        // the programs and, per endpoint, the status a sequential history answers with
        let mut progs: Vec<Vec<ROp>> = vec![];
        let mut endpoints: Vec<(String, u16)> = vec![];
        for t in 0..threads {
            let mut prog: Vec<ROp> = vec![];
            let mut pending: Vec<(usize, String)> = vec![];
            for j in 0..per {
                let base = format!("/c{t}/e{j}/");
                let e = t * per + j;
                let (mc, sc) = (200 + (e % 3) as u16, 210 + (e % 3) as u16);
                let m = ROp::Reg { id: format!("t{t}e{j}m"), base: base.clone(), code: mc, sub: false };
                let s = ROp::Reg { id: format!("t{t}e{j}s"), base: base.clone(), code: sc, sub: true };
                let shape = rng.below(4);
                let (has_m, has_s) = match shape { 0 => (true, false), 1 => (false, true), _ => (true, true) };
                match shape { 0 => prog.push(m), 1 => prog.push(s), 2 => { prog.push(m); prog.push(s) } _ => { prog.push(s); prog.push(m) } }
                let dropped = rng.below(6) == 0;
                let mut expect = if has_s { sc } else { mc };
                if dropped {
                    let (which, after) = if has_s { ("s", if has_m { mc } else { 404 }) } else { ("m", 404) };
                    pending.push((prog.len() + rng.below(6) as usize, format!("t{t}e{j}{which}")));
                    expect = after;
                }
                endpoints.push((base, expect));
                let (due, later): (Vec<_>, Vec<_>) = pending.into_iter().partition(|(at, _)| *at <= prog.len());
                pending = later;
                for (_, id) in due { prog.push(ROp::Drop { id }); }
            }
            for (_, id) in pending { prog.push(ROp::Drop { id }); }
            progs.push(prog);
        }
        let manager = rotonda::manager::Manager::new();
        let resources: Resources = manager.http_resources();
        let barrier = Arc::new(std::sync::Barrier::new(threads));
        let handles: Vec<_> = progs.iter().cloned().map(|prog| {
            let resources = resources.clone();
            let barrier = barrier.clone();
            std::thread::spawn(move || {
                let mut held: HashMap<String, Arc<dyn ProcessRequest>> = HashMap::new();
                barrier.wait();
                for op in prog {
                    match op {
                        ROp::Reg { id, base, code, sub } => {
                            let p = stub(base.clone(), code);
                            resources.register(Arc::downgrade(&p), "verif".into(), "verif", &base, sub);
                            held.insert(id, p);
                        }
                        ROp::Drop { id } => { held.remove(&id); }
                    }
                }
                held
            })
        }).collect();
        let held: Vec<_> = handles.into_iter().map(|h| h.join().expect("a registering thread panicked")).collect();
        total_regs += progs.iter().flatten().filter(|o| matches!(o, ROp::Reg { .. })).count();
        // every endpoint, through the real handler
        let mut obs: Vec<String> = vec![];
        let mut bad: Vec<String> = vec![];
        for (base, expect) in &endpoints {
            let req = Request::builder().method("GET").uri(format!("{base}x")).body(Body::empty()).unwrap();
            let tok = observe(&rt, req, &metrics, &resources);
            let status: u16 = tok.split(',').next().and_then(|s| s.parse().ok()).unwrap_or(0);
            if status != *expect { bad.push(format!("{base} expected={expect} got={tok}")); }
            obs.push(tok);
            total_reqs += 1;
        }
        let follow = Request::builder().method("GET").uri("/status").body(Body::empty()).unwrap();
        obs.push(observe(&rt, follow, &metrics, &resources));
        let mut case: Vec<String> = vec![];
        for op in progs.iter().flatten() {
            case.push(match op {
                ROp::Reg { id, base, code, sub } => format!("R {id} stub:{}:{code} {}", hexs(base), *sub as u8),
                ROp::Drop { id } => format!("D {id}"),
            });
        }
        for (base, _) in &endpoints { case.push(format!("Q 0 {} - -", hexs(&format!("{base}x")))); }
        case.push(format!("Q 0 {} - -", hexs("/status")));
        last = (case.join(";"), obs.join(" "));
        drop(held);
        drop(manager);
        if !bad.is_empty() {
            println!("lost round={round} wrong={} of {} first: {}", bad.len(), endpoints.len(), bad[0]);
            println!("{}", last.0);
            println!("{}", last.1);
            return;
        }
    }
    println!("ok rounds={rounds} threads={threads} registrations={total_regs} requests={total_reqs}");
    println!("{}", last.0);
    println!("{}", last.1);
}

/// What became of a request that runs in a task of its own (like the server's connection tasks).
async fn settle(h: &mut tokio::task::JoinHandle<u16>, ms: u64) -> String {
    match tokio::time::timeout(std::time::Duration::from_millis(ms), h).await {
        Err(_) => "blocked".into(),
        Ok(Ok(status)) => status.to_string(),
        Ok(Err(e)) => if e.is_panic() { "PANIC".into() } else { "cancelled".into() },
    }
}

/// One BMP connection through the real `RouterHandler` (StreamFixture over an in-memory pipe) with the
/// unit's router list and the router's info endpoint built over the SAME state machine mutex and
/// registered in the `Resources` of a `Manager`; requests go through the real
/// `Server::handle_request`, each in a task of its own (multi-thread runtime).
struct Scenario {
    fx: Arc<rotonda::verif::bmp_stream::StreamFixture>,
    resources: Resources,
    metrics: Arc<rotonda::metrics::Collection>,
    tx: Option<tokio::io::DuplexStream>,
    conn: Option<tokio::task::JoinHandle<()>>,
    info_path: String,
    _manager: rotonda::manager::Manager,
    _held: Vec<Arc<dyn ProcessRequest>>,
}

impl Scenario {
    async fn new() -> Result<Self, String> {
        use std::time::{Duration, Instant};
        use tokio::io::AsyncWriteExt;
        let render = crate::engines::bstream::render;
        let fx = Arc::new(rotonda::verif::bmp_stream::StreamFixture::new("198.51.100.1:11019".parse().unwrap()).await);
        let manager = rotonda::manager::Manager::new();
        let resources: Resources = manager.http_resources();
        let (list, info) = fx.http_processors(resources.clone(), "/routers/");
        resources.register(Arc::downgrade(&list), "verif".into(), "bmp-tcp-in", "/routers/", false);
        resources.register(Arc::downgrade(&info), "verif".into(), "bmp-tcp-in", "/routers/", true);
        let (mut tx, rx) = tokio::io::duplex(1 << 16);
        let conn = { let fx = fx.clone(); tokio::spawn(async move { fx.run(rx).await }) };
        // Initiation + Peer Up: the router is dumping
        tx.write_all(&render("I")).await.unwrap();
        tx.write_all(&render("U.0.1")).await.unwrap();
        let t0 = Instant::now();
        while fx.phase().await != 1 {
            if t0.elapsed() > Duration::from_secs(3) { return Err("broken the router did not reach the dumping phase".into()); }
            tokio::time::sleep(Duration::from_millis(1)).await;
        }
        let info_path = format!("/routers/{}", fx.router_id);
        Ok(Self { fx, resources, metrics: Arc::new(Default::default()), tx: Some(tx), conn: Some(conn), info_path, _manager: manager, _held: vec![list, info] })
    }

    fn get(&self, path: String) -> tokio::task::JoinHandle<u16> {
        let (resources, metrics) = (self.resources.clone(), self.metrics.clone());
        tokio::spawn(async move {
            let req = Request::builder().method("GET").uri(path).body(Body::empty()).unwrap();
            let res = Server::verif_handle_request(req, &metrics, &resources).await;
            let status = res.status().as_u16();
            let _ = hyper::body::to_bytes(res.into_body()).await;
            status
        })
    }

    fn path_of(&self, kind: &str) -> String {
        match kind { "I" => self.info_path.clone(), "L" => "/routers/".to_string(), k => panic!("bad request kind {k}") }
    }

    /// The schedule of C12_statelock_release_refuted with the given requests (I = router info,
    /// L = router list): they are made (1) while the router is idle, (2) while the connection task
    /// sits inside process_msg - the downstream end of the gate applies back-pressure, so
    /// `gate.update_data(..).await` does not return -, and (3) the back-pressure ends.
    /// `idle <status>.. window <status|blocked|PANIC>.. after <status|blocked|PANIC>..`
    async fn probe(&mut self, kinds: &[&str]) -> String {
        use std::time::{Duration, Instant};
        use tokio::io::AsyncWriteExt;
        let render = crate::engines::bstream::render;
        let mut idle = vec![];
        for k in kinds { idle.push(settle(&mut self.get(self.path_of(k)), 3000).await); }
        self.fx.hold_updates(true);
        self.tx.as_mut().unwrap().write_all(&render("R.0.0.1.1+2.0.-")).await.unwrap();
        let t0 = Instant::now();
        while self.fx.parked() == 0 {
            if t0.elapsed() > Duration::from_secs(3) { self.fx.hold_updates(false); return "broken the route monitoring message never reached the gate".into(); }
            tokio::time::sleep(Duration::from_millis(1)).await;
        }
        let mut hs: Vec<_> = vec![];
        for k in kinds { hs.push(self.get(self.path_of(k))); tokio::time::sleep(Duration::from_millis(2)).await; }
        tokio::time::sleep(Duration::from_millis(120)).await;
        let mut window = vec![];
        for h in hs.iter_mut() { window.push(if h.is_finished() { settle(h, 1000).await } else { "blocked".to_string() }); }
        self.fx.hold_updates(false);
        let mut after = vec![];
        for (h, w) in hs.iter_mut().zip(window.iter()) { after.push(if w == "blocked" { settle(h, 3000).await } else { w.clone() }); }
        format!("idle {} window {} after {}", idle.join(" "), window.join(" "), after.join(" "))
    }

    async fn finish(&mut self) -> &'static str {
        drop(self.tx.take());
        let ended = tokio::time::timeout(std::time::Duration::from_secs(5), self.conn.take().unwrap()).await;
        self.fx.terminate().await;
        match ended { Ok(Ok(())) => "ended", Ok(Err(_)) => "PANICKED", Err(_) => "still-running" }
    }
}

/// Engine c12lock (line protocol; same grammar as oracle/eng_c12lock.ml): a case is a sequence of
/// request kinds `I` / `L`; the observation is that of `Scenario::probe`.
pub fn probe_case(line: &str) -> String {
    let kinds: Vec<&str> = line.split_whitespace().collect();
    let rt = tokio::runtime::Builder::new_multi_thread().worker_threads(3).enable_all().build().unwrap();
    let out = rt.block_on(async {
        let mut sc = match Scenario::new().await { Ok(s) => s, Err(e) => return e };
        let obs = sc.probe(&kinds).await;
        let end = sc.finish().await;
        if end == "ended" { obs } else { format!("{obs} connection-{end}") }
    });
    rt.shutdown_background();
    out
}

/// c12-statelock <hammer-ms> <seed>: for <hammer-ms> the router sends messages back to back (statistics
/// reports, initiations, announcements, withdrawals) while four clients request the router list and the
/// info page (by ingress id, by address) as fast as they are answered; every request must get its 200 and
/// neither a handler nor the connection task may panic.
fn statelock(args: &[String]) {
    use std::sync::atomic::{AtomicBool, AtomicUsize, Ordering::SeqCst};
    use std::time::{Duration, Instant};
    use tokio::io::AsyncWriteExt;
    let hammer_ms: u64 = args.first().and_then(|s| s.parse().ok()).unwrap_or(1500);
    let seed: u64 = args.get(1).and_then(|s| s.parse().ok()).unwrap_or(1);
    let render = crate::engines::bstream::render;
    let rt = tokio::runtime::Builder::new_multi_thread().worker_threads(4).enable_all().build().unwrap();
    let verdict = rt.block_on(async move {
        let mut sc = match Scenario::new().await { Ok(s) => s, Err(e) => return e };
        let stop = Arc::new(AtomicBool::new(false));
        let sent = Arc::new(AtomicUsize::new(0));
        let mut tx = sc.tx.take().unwrap();
        let writer = {
            let (stop, sent) = (stop.clone(), sent.clone());
            let msgs: Vec<bytes::Bytes> = ["S.0", "I", "R.0.0.2.3.0.-", "S.0", "I", "S.0", "R.0.0.2.-.0.3", "I"].iter().map(|d| render(d)).collect();
            tokio::spawn(async move {
                let mut k = 0usize;
                while !stop.load(SeqCst) && k < 400_000 {
                    if tx.write_all(&msgs[k % msgs.len()]).await.is_err() { break; }
                    k += 1;
                    sent.store(k, SeqCst);
                    if k % 64 == 0 { tokio::task::yield_now().await; }
                }
                tx   // handed back: dropping it is the end of the stream
            })
        };
        let deadline = Instant::now() + Duration::from_millis(hammer_ms);
        let mut clients = vec![];
        for c in 0..4u64 {
            let mut rng = Sm(seed.wrapping_mul(7919).wrapping_add(c));
            let paths = [sc.info_path.clone(), "/routers/".to_string(), "/routers/198.51.100.1".to_string(), "/routers/?sort_by=state".to_string(), sc.info_path.clone()];
            let (resources, metrics) = (sc.resources.clone(), sc.metrics.clone());
            clients.push(tokio::spawn(async move {
                let mut n = 0usize;
                while Instant::now() < deadline {
                    let p = paths[rng.below(paths.len() as u64) as usize].clone();
                    let (resources, metrics, uri) = (resources.clone(), metrics.clone(), p.clone());
                    let mut h = tokio::spawn(async move {
                        let req = Request::builder().method("GET").uri(uri).body(Body::empty()).unwrap();
                        let res = Server::verif_handle_request(req, &metrics, &resources).await;
                        let status = res.status().as_u16();
                        let _ = hyper::body::to_bytes(res.into_body()).await;
                        status
                    });
                    let out = settle(&mut h, 5000).await;
                    n += 1;
                    if out != "200" { return Err(format!("GET {p} -> {out} (request {n} of client {c})")); }
                }
                Ok(n)
            }));
        }
        let mut requests = 0usize;
        let mut failure: Option<String> = None;
        for c in clients {
            match c.await { Ok(Ok(n)) => requests += n, Ok(Err(e)) => { failure.get_or_insert(e); } Err(_) => { failure.get_or_insert("a client task died".into()); } }
        }
        stop.store(true, SeqCst);
        sc.tx = writer.await.ok();
        let conn_txt = sc.finish().await;
        let msgs = sent.load(SeqCst);
        if failure.is_none() && conn_txt == "PANICKED" { failure = Some("the connection task panicked".into()); }
        match failure {
            None => format!("ok hammer requests={requests} messages={msgs} connection={conn_txt}"),
            Some(f) => format!("FAIL hammer {f} (messages={msgs} answered={requests})"),
        }
    });
    println!("{verdict}");
    // the fixture's gate task and cloned gates live on the runtime: do not wait for them
    rt.shutdown_background();
}
