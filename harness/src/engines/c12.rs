//! C12: HTTP request handling. Same case grammar as oracle/eng_c12.ml:
//!   C <0|1>                         compress_responses
//!   G <n>                           the manager's link report now has n components (0 at start-up)
//!   R <id> <kind> <sub:0|1>         register a processor; kind =
//!        rib:<hexbase> | routers:<hexbase> | mrt:<hexbase> | info:<hexbase> | stub:<hexprefix>:<code>
//!   D <id>                          the owner drops the processor registered as <id>
//!   Q <method> <hexpath> <hexquery|-> <name:hexvalue,...|->      one request
//! The initial Resources are those of Manager::new() (/status/graph, /status/traces).
//! Observation per request: `<status>,<gzip|->[,<r|e>]` (4xx: reason present / empty),
//! `PANIC`, or `rejected` (the http crate refuses the bytes before any handler runs).
use crate::util::ops;
use rotonda::verif::http::hyper::{self, Body, Request};
use rotonda::verif::http::{self as vh, ProcessRequest, Resources, Server};
use std::collections::HashMap;
use std::io::Read;
use std::sync::Arc;

const METHODS: [&str; 11] =
    ["GET", "POST", "HEAD", "PUT", "DELETE", "OPTIONS", "PATCH", "get", "GETX", "CONNECT", "TRACE"];

pub const INFO_ROUTER_ID: &str = "rtr-a";
pub const INFO_ADDR: &str = "10.0.0.1";

fn unhex(s: &str) -> Vec<u8> {
    if s == "-" || s == "_" { return vec![]; }
    (0..s.len() / 2).map(|i| u8::from_str_radix(&s[2 * i..2 * i + 2], 16).unwrap()).collect()
}
fn unhex_str(s: &str) -> String { String::from_utf8(unhex(s)).unwrap() }

enum Held {
    Proc(Arc<dyn ProcessRequest>),
    Info(vh::RouterInfoHandle),
}

fn build_request(op: &[&str]) -> Option<Request<Body>> {
    let m: usize = op[1].parse().unwrap();
    let mut uri = unhex(op[2]);
    if op[3] != "-" {
        uri.push(b'?');
        uri.extend(unhex(op[3]));
    }
    let uri = hyper::Uri::from_maybe_shared(uri).ok()?;
    let mut b = Request::builder().method(METHODS[m % METHODS.len()]).uri(uri);
    if op.len() > 4 && op[4] != "-" {
        for h in op[4].split(',') {
            let (n, v) = h.split_once(':').unwrap();
            let v = hyper::header::HeaderValue::from_bytes(&unhex(v)).ok()?;
            b = b.header(n, v);
        }
    }
    b.body(Body::empty()).ok()
}

pub fn run_case(line: &str) -> String {
    let rt = tokio::runtime::Builder::new_current_thread().enable_all().build().unwrap();
    let manager = rotonda::manager::Manager::new();
    let mut resources: Resources = manager.http_resources();
    let metrics = rotonda::metrics::Collection::default();
    let mut held: HashMap<String, Held> = HashMap::new();
    let mut out: Vec<String> = vec![];
    for op in ops(line) {
        match op[0] {
            "C" => resources.verif_set_compress_responses(op[1] == "1"),
            "G" => manager.verif_set_link_report(op[1].parse().unwrap()),
            "R" => {
                let id = op[1].to_string();
                let sub = op[3] == "1";
                let parts: Vec<&str> = op[2].split(':').collect();
                let base = unhex_str(parts[1]);
                let h = match parts[0] {
                    "rib" => Held::Proc(vh::physical_prefixes_api(&base)),
                    "routers" => Held::Proc(vh::router_list_api(resources.clone(), &base)),
                    "mrt" => Held::Proc(vh::mrt_api_without_update_path(&base)),
                    "info" => Held::Info(
                        vh::router_info_api(resources.clone(), &base, INFO_ROUTER_ID, INFO_ADDR.parse().unwrap()).0,
                    ),
                    "stub" => {
                        let code: u16 = parts[2].parse().unwrap();
                        let pfx = base.clone();
                        let f = move |req: &Request<Body>| {
                            use rotonda::http::PercentDecodedPath;
                            if req.uri().decoded_path().starts_with(pfx.as_str()) {
                                Some(hyper::Response::builder().status(code).body(Body::from("stub")).unwrap())
                            } else {
                                None
                            }
                        };
                        Held::Proc(Arc::new(f))
                    }
                    k => panic!("bad kind {k}"),
                };
                let p = match &h { Held::Proc(p) => p.clone(), Held::Info(i) => i.processor.clone() };
                resources.register(Arc::downgrade(&p), "verif".into(), "verif", &base, sub);
                drop(p);
                held.insert(id, h);
            }
            "D" => { held.remove(op[1]); }
            "Q" => {
                let req = match build_request(&op) { Some(r) => r, None => { out.push("rejected".into()); continue; } };
                let res = std::panic::catch_unwind(std::panic::AssertUnwindSafe(|| {
                    rt.block_on(async {
                        let res = Server::verif_handle_request(req, &metrics, &resources).await;
                        let status = res.status().as_u16();
                        let encs: Vec<String> = res.headers().get_all("Content-Encoding").iter()
                            .map(|v| String::from_utf8_lossy(v.as_bytes()).to_string()).collect();
                        let body = hyper::body::to_bytes(res.into_body()).await.unwrap().to_vec();
                        (status, encs, body)
                    })
                }));
                match res {
                    Err(e) => { if std::env::var("C12_PANIC_MSG").is_ok() { eprintln!("panic: {}", crate::util::panic_msg(&e)); } out.push("PANIC".into()) }
                    Ok((status, encs, body)) => {
                        let (enc, plain) = match encs.as_slice() {
                            [] => ("-".to_string(), Some(body)),
                            [e] if e == "gzip" => {
                                let mut d = vh::flate2::read::GzDecoder::new(&body[..]);
                                let mut v = vec![];
                                match d.read_to_end(&mut v) { Ok(_) => ("gzip".to_string(), Some(v)), Err(_) => ("badgzip".to_string(), None) }
                            }
                            other => (format!("enc[{}]", other.join("+")), None),
                        };
                        let mut t = format!("{status},{enc}");
                        if (400..500).contains(&status) {
                            t.push_str(match plain { Some(b) if !b.is_empty() => ",r", _ => ",e" });
                        }
                        out.push(t);
                    }
                }
            }
            _ => panic!("bad op {:?}", op),
        }
    }
    drop(manager);
    out.join(" ")
}

pub fn special(_name: &str, _args: &[String]) -> bool { false }
