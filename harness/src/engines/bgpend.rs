//! bgpend: the END of a BGP session (C02 / C07, BGP part). The REAL
//! `Processor::process` loop of bgp_tcp_in/router_handler.rs is driven to its end
//! by a script of the events its `select!` can see (facade
//! rotonda::verif::bgp_session, a scripted BgpSession that is the single source of
//! events), whatever ends it: ConnectionLost, tick() Err, reconfiguration,
//! de-configuration, a closed session channel. The updates that left the gate are
//! then applied, after the routes of ANOTHER source, to a real RibUnitRunner and
//! every prefix of the case is read back with Rib::match_prefix.
//! Case grammar (same as oracle/eng_bgpend.ml), ops separated by `;`:
//!   S <id> <dup> <other>   ingress id of the session; live_sessions already holds this peer's
//!                          key (an earlier connection of the same peer) / an unrelated key
//!   P <a> <ps> <ws>        before the session: an UPDATE of another source (ingress id 900)
//!   t | g | e <kind>       tick(): Ok | Ok and negotiated() is Some from now on | Err
//!   n | u <a> <ps> <ws> | k | l <0|1> | x
//!                          session channel: SessionNegotiated | UPDATE | NOTIFICATION |
//!                          ConnectionLost(None|Some) | all senders dropped
//!                          (an UPDATE that routecore parses as a message but process_update refuses
//!                          could not be constructed: from_octets validates the NLRI; that arm of the
//!                          loop - log, send nothing, go on - is in the model but not exercised)
//!   T | r <unit|same|peer|gone|other>
//!                          gate: Terminate | Reconfigure(main config changed | nothing changed |
//!                          this peer's config changed | this peer removed | only another peer's entry
//!                          changed: one is added, with its own hold time)
//!   M                      (C15 profile) after the session: read the unit's own counters from the Prometheus text the
//!                          real BgpTcpInMetrics source renders (through the independent reader engines/promtext.rs):
//!                          token met:lost=<bgp_tcp_in_connection_lost_count>,disc=<bgp_tcp_in_disconnect_count>
//! When the script is over the session channel is closed.
//! Observation: end:<process returned> used:<events taken> <one token per update> live:<keys>
//! cmds:<Disconnect reasons sent to the session> <one q token per prefix>
use crate::engines::pipe::{malformed_update, prefix_str, update_bytes};
use crate::util::ops;
use bytes::Bytes;
use rotonda::payload::Update;
use rotonda::roto_runtime::types::{PeerRibType, Provenance, RouteContext};
use rotonda::verif::bgp_session as bs;
use rotonda::verif::rib::RibUnitRunner;
use rotonda_store::prelude::multi::RouteStatus;
use rotonda_store::{MatchOptions, MatchType};
use routecore::bgp::message::{SessionConfig, UpdateMessage};
use std::collections::{BTreeSet, HashMap};
use std::net::{IpAddr, Ipv4Addr};
use std::str::FromStr;
use std::sync::Arc;

const OTHER_ID: u32 = 900;

fn parse_update(bytes: Bytes) -> UpdateMessage<Bytes> {
    UpdateMessage::from_octets(bytes, &SessionConfig::modern()).expect("the harness encodes parsable UPDATEs")
}

fn attr_blob(msg: &UpdateMessage<Bytes>) -> Option<Vec<u8>> {
    let routes = rotonda::verif::bgp::explode_announcements(msg).ok()?;
    routes.first().map(|r| r.owned_map().clone().into_vec())
}

fn prefixes_of(tok: &str) -> Vec<u32> {
    if tok == "-" { vec![] } else { tok.split(',').map(|t| t.parse().unwrap()).collect() }
}

struct Names {
    session: u32,
    attrs: HashMap<Vec<u8>, u32>,
}

impl Names {
    fn who(&self, id: u32) -> String {
        if id == self.session { "s".into() } else if id == OTHER_ID { "o".into() } else { format!("?{id}") }
    }
    fn attr(&self, blob: &[u8]) -> String {
        match self.attrs.get(blob) { Some(a) => a.to_string(), None => format!("n{}", blob.len()) }
    }
    fn prefix(&self, p: &inetnum::addr::Prefix) -> String {
        // 10.<p>.0.0/16 is the abstract prefix p
        match (p.addr(), p.len()) {
            (IpAddr::V4(a), 16) if a.octets()[0] == 10 && a.octets()[2] == 0 && a.octets()[3] == 0 => a.octets()[1].to_string(),
            _ => format!("?{p}"),
        }
    }
    fn payload(&self, p: &rotonda::payload::Payload) -> String {
        let (st, id) = match &p.context {
            RouteContext::Fresh(c) => (c.status, c.provenance().ingress_id),
            RouteContext::Mrt(c) => (c.status, c.provenance().ingress_id),
            _ => (RouteStatus::InActive, u32::MAX),
        };
        let v = serde_json::to_value(&p.rx_value).unwrap_or(serde_json::Value::Null);
        let txt = v.get("prefix").map(|x| x.as_str().map(|s| s.to_string()).unwrap_or_else(|| x.to_string())).unwrap_or_default();
        let pfx = match inetnum::addr::Prefix::from_str(txt.trim_matches('"')) { Ok(x) => self.prefix(&x), Err(_) => format!("?{txt}") };
        match st {
            RouteStatus::Active => format!("+{}#{}/{}", pfx, self.who(id), self.attr(&p.rx_value.owned_map().clone().into_vec())),
            RouteStatus::Withdrawn => format!("-{}#{}", pfx, self.who(id)),
            _ => format!("?{}#{}", pfx, self.who(id)),
        }
    }
    fn update(&self, u: &Update) -> String {
        match u {
            Update::Bulk(ps) => format!("u:[{}]", ps.iter().map(|p| self.payload(p)).collect::<Vec<_>>().join(",")),
            Update::Single(p) => format!("u:[{}]", self.payload(p)),
            Update::Withdraw(id, None) => format!("w:{}", self.who(*id)),
            Update::Withdraw(id, Some(f)) => format!("w:{}:{}", self.who(*id), f),
            Update::WithdrawBulk(ids) => format!("W:[{}]", ids.iter().map(|i| self.who(*i)).collect::<Vec<_>>().join(",")),
            _ => "other".into(),
        }
    }
}

pub fn run_case(line: &str) -> String {
    let rt = tokio::runtime::Builder::new_current_thread().enable_all().build().unwrap();
    let _g = rt.enter();
    let mut names = Names { session: 7, attrs: HashMap::new() };
    let (mut dup, mut other, mut metrics) = (false, true, false);
    let mut pre: Vec<UpdateMessage<Bytes>> = vec![];
    let mut events: Vec<bs::Event> = vec![];
    let mut queried: BTreeSet<u32> = BTreeSet::new();
    for op in ops(line) {
        let routes = |names: &mut Names, queried: &mut BTreeSet<u32>, op: &[&str]| -> UpdateMessage<Bytes> {
            let a: u32 = op[1].parse().unwrap();
            for p in prefixes_of(op[2]).into_iter().chain(prefixes_of(op[3])) { queried.insert(p); }
            let msg = parse_update(update_bytes(0, a, op[2], 0, op[3]));
            if let Some(blob) = attr_blob(&msg) { names.attrs.entry(blob).or_insert(a); }
            msg
        };
        match op[0] {
            "S" => {
                names.session = op[1].parse().unwrap();
                dup = op[2] == "1";
                other = op[3] == "1";
            }
            "P" => pre.push(routes(&mut names, &mut queried, &op)),
            "t" => events.push(bs::Event::TickOk),
            "g" => events.push(bs::Event::Negotiate),
            "e" => events.push(bs::Event::TickErr(match op[1] {
                "0" => "error from read_frame",
                "1" => "handle_msg failed",
                _ => "stop processing",
            })),
            "n" => events.push(bs::Event::SessionNegotiated),
            "u" => events.push(bs::Event::Update(routes(&mut names, &mut queried, &op))),
            "k" => events.push(bs::Event::Notification),
            "l" => events.push(bs::Event::ConnectionLost(op[1] == "1")),
            "x" => events.push(bs::Event::ChannelClosed),
            "T" => events.push(bs::Event::Terminate),
            "M" => metrics = true,
            "r" => events.push(bs::Event::Reconfigure(match op[1] {
                "unit" => bs::Reconf::Unit,
                "same" => bs::Reconf::Same,
                "peer" => bs::Reconf::Peer,
                "gone" => bs::Reconf::Gone,
                "other" => bs::Reconf::Others,
                x => panic!("bad reconfiguration {x}"),
            })),
            _ => panic!("bad op {:?}", op),
        }
    }
    let peer = bs::peer_key();
    let other_key = (IpAddr::V4(Ipv4Addr::new(192, 0, 2, 99)), inetnum::asn::Asn::from_u32(64999));
    let mut pre_live = vec![];
    if dup { pre_live.push(peer); }
    if other { pre_live.push(other_key); }
    let out = rt.block_on(bs::run(None, names.session, pre_live, events, std::time::Duration::from_secs(10)));

    // the RIB: the other source's routes first, then what the session's processor sent
    let reg = Arc::new(rotonda::verif::ingress::new_register());
    let (rib, _agent) = RibUnitRunner::verif_new(reg);
    for msg in pre {
        let ip = IpAddr::V4(Ipv4Addr::new(203, 0, 113, 9));
        let prov = Provenance::for_bmp(OTHER_ID, ip, inetnum::asn::Asn::from_u32(64509), ip, [0; 9], PeerRibType::InPre);
        let u = rt.block_on(rotonda::verif::bgp::verif_process_update(msg, prov)).expect("the other source's UPDATE");
        rt.block_on(rib.verif_process_update(u)).unwrap();
    }
    let mut toks = vec![format!("end:{}", out.finished as u8), format!("used:{}", out.consumed)];
    for u in &out.updates { toks.push(names.update(u)); }
    for u in out.updates { rt.block_on(rib.verif_process_update(u)).unwrap(); }
    let live: Vec<String> = out.live.iter().map(|k| {
        if *k == peer { "peer".to_string() } else if *k == other_key { "other".to_string() } else { format!("?{}@{}", k.1, k.0) }
    }).collect();
    let mut live = live; live.sort();
    toks.push(format!("live:{}", if live.is_empty() { "-".into() } else { live.join(",") }));
    toks.push(format!("cmds:{}", if out.commands.is_empty() { "-".into() } else { out.commands.join(",") }));
    let mo = MatchOptions { match_type: MatchType::ExactMatch, include_withdrawn: true, include_less_specifics: false, include_more_specifics: false, mui: None };
    for p in queried {
        let pfx = inetnum::addr::Prefix::from_str(&prefix_str(0, p)).unwrap();
        let res = rib.verif_rib().match_prefix(&pfx, &mo).unwrap();
        let mut es: Vec<String> = res.prefix_meta.iter().map(|r| {
            format!("{}={}{}", names.who(r.multi_uniq_id), if r.status == RouteStatus::Active { "A" } else { "W" }, names.attr(&r.meta.0.clone().into_vec()))
        }).collect();
        es.sort();
        toks.push(format!("q{}:{}", p, if es.is_empty() { "-".into() } else { es.join(",") }));
    }
    if metrics { toks.push(unit_counters(&out.metrics_prometheus)); }
    toks.join(" ")
}

/// the bgp-tcp-in unit's own counters (src/units/bgp_tcp_in/metrics.rs) from the rendered /metrics text
fn unit_counters(text: &str) -> String {
    match super::promtext::parse(text) {
        Err(e) => format!("met:BAD:{e}"),
        Ok(p) => {
            let one = |n: &str| p.get(n, &[("component", "verif")]).unwrap_or("?").to_string();
            format!("met:lost={},disc={}", one("rotonda_bgp_tcp_in_connection_lost_count_total"), one("rotonda_bgp_tcp_in_disconnect_count_total"))
        }
    }
}

fn frame(ty: u8, body: &[u8]) -> Vec<u8> {
    let mut v = vec![0xffu8; 16];
    v.extend_from_slice(&((19 + body.len()) as u16).to_be_bytes());
    v.push(ty);
    v.extend_from_slice(body);
    v
}

/// user + system CPU time of this process so far (Linux: /proc/self/stat, clock ticks of 10 ms)
fn cpu_ms() -> u64 {
    let stat = std::fs::read_to_string("/proc/self/stat").unwrap_or_default();
    let rest = stat.rsplit(')').next().unwrap_or("");
    let f: Vec<&str> = rest.split_whitespace().collect();
    // after the command name: state is field 0, utime field 11, stime field 12
    let t = |i: usize| f.get(i).and_then(|x| x.parse::<u64>().ok()).unwrap_or(0);
    (t(11) + t(12)) * 10
}

/// bgpend-e2e <mode>: the real handle_connection (routecore Session + writer task + Processor::process)
/// over a real loopback TCP stream, started as accept_config of unit.rs starts it (facade
/// rotonda::verif::bgp_session::connection). The client sends OPEN, KEEPALIVE and an UPDATE announcing
/// 10.1.0.0/16 and 10.2.0.0/16, then the session is ended on the wire:
///   close         FIN on a message boundary
///   cut           half an UPDATE, then FIN
///   reset         RST (SO_LINGER 0)
///   garbage       a frame routecore cannot parse (an UPDATE whose NLRI claims a /33)
///   badtype       a message of type 9
///   notification  the peer sends NOTIFICATION (Cease) and closes
///   shutdown      the unit is terminated; the peer closes when it has read the NOTIFICATION
///   shutdown-deaf the unit is terminated; the peer neither reads nor closes
/// Prints: established (live_sessions had the peer, the routes went out), whether handle_connection
/// returned, live_sessions afterwards, the updates that left the gate.
fn e2e(mode: &str) {
    use tokio::io::{AsyncReadExt, AsyncWriteExt};
    let names = Names { session: 7, attrs: HashMap::new() };
    let rt = tokio::runtime::Builder::new_multi_thread().worker_threads(2).enable_all().build().unwrap();
    let mode = mode.to_string();
    rt.block_on(async move {
        let listener = tokio::net::TcpListener::bind("127.0.0.1:0").await.expect("loopback");
        let addr = listener.local_addr().unwrap();
        let client = tokio::net::TcpStream::connect(addr).await.unwrap();
        let (server, peer) = listener.accept().await.unwrap();
        let fx = bs::connection::start(server, peer.ip(), 7).await;
        // SO_LINGER 0: closing the socket sends RST
        if mode == "reset" { client.set_linger(Some(std::time::Duration::from_secs(0))).unwrap(); }
        let (mut rd, mut wr) = client.into_split();
        // the peer's reader: notes a NOTIFICATION from our side
        let saw_notification = Arc::new(std::sync::atomic::AtomicBool::new(false));
        let saw = saw_notification.clone();
        let deaf = mode == "shutdown-deaf";
        let reader = tokio::spawn(async move {
            let mut buf: Vec<u8> = vec![];
            let mut chunk = [0u8; 4096];
            loop {
                if deaf { tokio::time::sleep(std::time::Duration::from_secs(3600)).await; }
                match rd.read(&mut chunk).await {
                    Ok(0) | Err(_) => break,
                    Ok(n) => buf.extend_from_slice(&chunk[..n]),
                }
                while buf.len() >= 19 {
                    let len = u16::from_be_bytes([buf[16], buf[17]]) as usize;
                    if len < 19 || buf.len() < len { break; }
                    if buf[18] == 3 { saw.store(true, std::sync::atomic::Ordering::SeqCst); }
                    buf.drain(..len);
                }
            }
            rd
        });
        // OPEN: version 4, AS 65001, hold time 90, id 10.0.0.9, capabilities MP IPv4 unicast + 4-octet AS
        let open = frame(1, &[4, 0xfd, 0xe9, 0, 90, 10, 0, 0, 9, 14, 2, 12, 1, 4, 0, 1, 0, 1, 65, 4, 0, 0, 0xfd, 0xe9]);
        wr.write_all(&open).await.unwrap();
        wr.write_all(&frame(4, &[])).await.unwrap();
        let upd = update_bytes(0, 3, "1,2", 0, "-");
        wr.write_all(&upd).await.unwrap();
        wr.flush().await.unwrap();
        let mut established = false;
        for _ in 0..300 {
            if !fx.live().is_empty() && fx.updates().iter().any(|u| matches!(u, Update::Bulk(_))) { established = true; break; }
            tokio::time::sleep(std::time::Duration::from_millis(10)).await;
        }
        let sleep = |ms| tokio::time::sleep(std::time::Duration::from_millis(ms));
        let mut keep: Vec<Box<dyn std::any::Any>> = vec![];
        match mode.as_str() {
            "close" => { drop(wr); }
            "cut" => { wr.write_all(&upd[..upd.len() / 2]).await.unwrap(); wr.flush().await.unwrap(); sleep(30).await; drop(wr); }
            "reset" => { reader.abort(); let _ = reader.await; drop(wr); }
            "garbage" => { wr.write_all(&malformed_update()).await.unwrap(); wr.flush().await.unwrap(); sleep(100).await; keep.push(Box::new(wr)); }
            "badtype" => { wr.write_all(&frame(9, &[1, 2, 3])).await.unwrap(); wr.flush().await.unwrap(); sleep(100).await; keep.push(Box::new(wr)); }
            "notification" => { wr.write_all(&frame(3, &[6, 2])).await.unwrap(); wr.flush().await.unwrap(); sleep(30).await; drop(wr); }
            "shutdown" | "shutdown-deaf" => {
                fx.terminate().await;
                for _ in 0..100 {
                    if saw_notification.load(std::sync::atomic::Ordering::SeqCst) { break; }
                    sleep(10).await;
                }
                if mode == "shutdown" && saw_notification.load(std::sync::atomic::Ordering::SeqCst) {
                    // a peer that got the NOTIFICATION closes the connection, both directions
                    reader.abort();
                    let _ = reader.await;
                    drop(wr);
                } else { keep.push(Box::new(wr)); }
            }
            m => panic!("bad mode {m}"),
        }
        let mut finished = false;
        let (t0, c0) = (std::time::Instant::now(), cpu_ms());
        for _ in 0..(if deaf { 100 } else { 300 }) {
            if fx.connection_finished() { finished = true; break; }
            sleep(10).await;
        }
        // did the wait burn CPU (more than half of one core)?
        let busy = !finished && (cpu_ms() - c0) * 2 > t0.elapsed().as_millis() as u64;
        let live: Vec<String> = fx.live().iter().map(|k| format!("{}@{}", k.1, k.0)).collect();
        let ups: Vec<String> = fx.updates().iter().map(|u| names.update(u)).collect();
        println!("established:{} notification-seen:{} finished:{} busy:{} unit-finished:{} live-after:{} updates:{}",
            established as u8, saw_notification.load(std::sync::atomic::Ordering::SeqCst) as u8, finished as u8, busy as u8, fx.unit_finished() as u8,
            if live.is_empty() { "-".into() } else { live.join(",") }, ups.join(" "));
        drop(keep);
        std::process::exit(0);
    });
}

pub fn special(name: &str, args: &[String]) -> bool {
    if name == "bgpend-e2e" {
        e2e(args.first().map(|s| s.as_str()).unwrap_or("close"));
        return true;
    }
    if name == "bgpend-probe" {
        // debugging aid: is the refused UPDATE really parsed as a message and refused by process_update?
        let rt = tokio::runtime::Builder::new_current_thread().enable_all().build().unwrap();
        let _g = rt.enter();
        let bytes = match args.first() { Some(h) => Bytes::from(crate::engines::c04::unhex(h).expect("hex")), None => malformed_update() };
        let r = UpdateMessage::from_octets(bytes, &SessionConfig::modern());
        println!("from_octets ok: {}", r.is_ok());
        if let Ok(msg) = r {
            let ip = IpAddr::V4(Ipv4Addr::new(203, 0, 113, 9));
            let prov = Provenance::for_bmp(1, ip, inetnum::asn::Asn::from_u32(64509), ip, [0; 9], PeerRibType::InPre);
            println!("process_update ok: {}", rt.block_on(rotonda::verif::bgp::verif_process_update(msg, prov)).is_ok());
        }
        return true;
    }
    false
}
