//! promtext: a small, independent reader of the Prometheus text exposition format
//! (https://prometheus.io/docs/instrumenting/exposition_formats/ - text format 0.0.4),
//! written from the format's description and sharing nothing with rotonda's writer
//! (src/metrics.rs). Used by the `bstream` engine on every /metrics text it reads (C15:
//! "the Prometheus text parses") and, as a line engine of its own, to test the reader itself:
//!   case  = hex of a text
//!   print = `ok families:<n> series:<n> strict:<ok|list of departures>` or `BAD:<class>@<line number>`
//!
//! HARD rules (a departure is `BAD`):
//!   * the text is empty or ends with a newline; every line is empty, a comment (`# ...`), or a sample
//!     `name[{lname="value",...[,]}] value [timestamp]` - metric and label names over the allowed alphabets,
//!     label values with the three escapes the format defines (\\ \" \n) and nothing else after a
//!     backslash, no raw newline or unescaped quote inside; the value a float (Go syntax incl. NaN, +Inf, -Inf),
//!     the timestamp an integer;
//!   * `# HELP name text` / `# TYPE name counter|gauge|histogram|summary|untyped` are well formed, all TYPE
//!     lines of one name agree, and the HELP and the TYPE line of a family come before its first sample
//!     (family of a sample = its name, or the name without _bucket/_sum/_count for a histogram / summary);
//!   * no label name twice in one sample; no two samples with the same name and the same label set.
//! STRICT rules (reported, see known finding C15-5): a name has at most one HELP and one TYPE line; all
//! lines of a family form one group; no TYPE line after a sample of its family.
use std::collections::{HashMap, HashSet};

#[derive(Clone, Debug)]
pub struct Sample {
    pub name: String,
    pub labels: Vec<(String, String)>,
    pub value: String,
}

impl Sample {
    pub fn label(&self, n: &str) -> Option<&str> {
        self.labels.iter().find(|(k, _)| k == n).map(|(_, v)| v.as_str())
    }
}

#[derive(Default, Debug)]
pub struct Parsed {
    pub samples: Vec<Sample>,
    pub families: usize,
    /// departures from the strict rules, in a fixed order, without duplicates
    pub strict: Vec<&'static str>,
}

impl Parsed {
    /// the value of the series `name` whose label set contains all of `want`
    pub fn get(&self, name: &str, want: &[(&str, &str)]) -> Option<&str> {
        self.samples.iter().find(|s| s.name == name && want.iter().all(|(k, v)| s.label(k) == Some(*v))).map(|s| s.value.as_str())
    }
}

fn name_start(c: char, colon: bool) -> bool { c.is_ascii_alphabetic() || c == '_' || (colon && c == ':') }
fn name_char(c: char, colon: bool) -> bool { name_start(c, colon) || c.is_ascii_digit() }

fn metric_name_ok(n: &str) -> bool {
    let mut it = n.chars();
    matches!(it.next(), Some(c) if name_start(c, true)) && it.all(|c| name_char(c, true))
}

fn float_ok(v: &str) -> bool {
    matches!(v, "NaN" | "+Inf" | "-Inf" | "Inf") || (!v.is_empty()
        && v.chars().all(|c| c.is_ascii_digit() || matches!(c, '+' | '-' | '.' | 'e' | 'E'))
        && v.parse::<f64>().is_ok())
}

/// one sample line; Err = class of the departure
fn parse_sample(line: &str) -> Result<Sample, &'static str> {
    let cs: Vec<char> = line.chars().collect();
    let mut i = 0;
    let ws = |i: &mut usize| while *i < cs.len() && (cs[*i] == ' ' || cs[*i] == '\t') { *i += 1 };
    ws(&mut i);
    let st = i;
    if !(i < cs.len() && name_start(cs[i], true)) { return Err("metric-name"); }
    while i < cs.len() && name_char(cs[i], true) { i += 1; }
    let name: String = cs[st..i].iter().collect();
    let after_name = i;
    ws(&mut i);
    let spaced = i > after_name;
    let mut braces = false;
    let mut labels: Vec<(String, String)> = vec![];
    if i < cs.len() && cs[i] == '{' {
        braces = true;
        i += 1;
        loop {
            ws(&mut i);
            if i < cs.len() && cs[i] == '}' { i += 1; break; }
            let st = i;
            if !(i < cs.len() && name_start(cs[i], false)) { return Err("label-name"); }
            while i < cs.len() && name_char(cs[i], false) { i += 1; }
            let ln: String = cs[st..i].iter().collect();
            ws(&mut i);
            if !(i < cs.len() && cs[i] == '=') { return Err("label-equals"); }
            i += 1;
            ws(&mut i);
            if !(i < cs.len() && cs[i] == '"') { return Err("label-quote"); }
            i += 1;
            let mut v = String::new();
            loop {
                if i >= cs.len() { return Err("label-value-unterminated"); }
                match cs[i] {
                    '"' => { i += 1; break; }
                    '\\' => {
                        match cs.get(i + 1) {
                            Some('\\') => v.push('\\'),
                            Some('"') => v.push('"'),
                            Some('n') => v.push('\n'),
                            _ => return Err("label-value-escape"),
                        }
                        i += 2;
                    }
                    c => { v.push(c); i += 1; }
                }
            }
            if labels.iter().any(|(k, _)| *k == ln) { return Err("label-twice"); }
            labels.push((ln, v));
            ws(&mut i);
            match cs.get(i) {
                Some(',') => { i += 1; }
                Some('}') => { i += 1; break; }
                _ => return Err("label-separator"),
            }
        }
    }
    let rest: String = cs[i..].iter().collect();
    if !rest.is_empty() && !spaced && !braces { return Err("metric-name"); }
    let toks: Vec<&str> = rest.split_whitespace().collect();
    match toks.len() {
        1 | 2 => {}
        0 => return Err("value-missing"),
        _ => return Err("trailing-text"),
    }
    if !float_ok(toks[0]) { return Err("value"); }
    if toks.len() == 2 && toks[1].parse::<i64>().is_err() { return Err("timestamp"); }
    Ok(Sample { name, labels, value: toks[0].to_string() })
}

pub fn parse(text: &str) -> Result<Parsed, String> {
    let mut out = Parsed::default();
    if text.is_empty() { return Ok(out); }
    let bad = |class: &str, n: usize| -> Result<Parsed, String> { Err(format!("{class}@{n}")) };
    if !text.ends_with('\n') { return bad("no-final-newline", text.lines().count()); }
    let mut types: HashMap<String, String> = HashMap::new();
    let mut helps: HashSet<String> = HashSet::new();
    let mut sampled: HashSet<String> = HashSet::new();      // families that have a sample already
    let mut closed: HashSet<String> = HashSet::new();       // families whose group has ended
    let mut current: Option<String> = None;                 // family of the group we are in
    let mut series: HashSet<(String, Vec<(String, String)>)> = HashSet::new();
    let mut strict: HashSet<&'static str> = HashSet::new();
    let mut enter = |fam: &str, current: &mut Option<String>, closed: &mut HashSet<String>, strict: &mut HashSet<&'static str>| {
        if current.as_deref() != Some(fam) {
            if let Some(c) = current.take() { closed.insert(c); }
            if closed.contains(fam) { strict.insert("family-split"); }
            *current = Some(fam.to_string());
        }
    };
    for (k, line) in text[..text.len() - 1].split('\n').enumerate() {
        let n = k + 1;
        if line.contains('\r') { return bad("carriage-return", n); }
        let t = line.trim_start_matches([' ', '\t']);
        if t.is_empty() { continue; }
        if let Some(c) = t.strip_prefix('#') {
            let c = c.trim_start_matches([' ', '\t']);
            let (kw, rest) = match c.split_once([' ', '\t']) { Some((a, b)) => (a, b.trim_start_matches([' ', '\t'])), None => (c, "") };
            if kw != "HELP" && kw != "TYPE" { continue; }    // an ordinary comment
            let (name, arg) = match rest.split_once([' ', '\t']) { Some((a, b)) => (a, b.trim_start_matches([' ', '\t'])), None => (rest, "") };
            if !metric_name_ok(name) { return bad("header-name", n); }
            if kw == "HELP" {
                // docstring: any text, backslash only as \\ or \n
                let mut it = arg.chars();
                while let Some(ch) = it.next() {
                    if ch == '\\' && !matches!(it.next(), Some('\\') | Some('n')) { return bad("help-escape", n); }
                }
                if !helps.insert(name.to_string()) { strict.insert("help-repeated"); }
            } else {
                let ty = arg.trim_end_matches([' ', '\t']);
                if !matches!(ty, "counter" | "gauge" | "histogram" | "summary" | "untyped") { return bad("type-unknown", n); }
                match types.get(name) {
                    Some(old) if old != ty => return bad("type-conflict", n),
                    Some(_) => { strict.insert("type-repeated"); }
                    None => { types.insert(name.to_string(), ty.to_string()); }
                }
                if sampled.contains(name) { strict.insert("type-after-sample"); }
            }
            enter(name, &mut current, &mut closed, &mut strict);
            continue;
        }
        let s = match parse_sample(t) { Ok(s) => s, Err(class) => return bad(class, n) };
        // the family of the sample
        let mut fam = s.name.clone();
        if !types.contains_key(&fam) {
            for suf in ["_bucket", "_sum", "_count"] {
                if let Some(base) = s.name.strip_suffix(suf) {
                    if matches!(types.get(base).map(|x| x.as_str()), Some("histogram") | Some("summary")) { fam = base.to_string(); }
                }
            }
        }
        if !types.contains_key(&fam) { return bad("sample-before-type", n); }
        if !helps.contains(&fam) { return bad("sample-before-help", n); }
        sampled.insert(fam.clone());
        enter(&fam, &mut current, &mut closed, &mut strict);
        let mut ls = s.labels.clone();
        ls.sort();
        if !series.insert((s.name.clone(), ls)) { return bad("series-twice", n); }
        out.samples.push(s);
    }
    out.families = types.len();
    for k in ["help-repeated", "type-repeated", "type-after-sample", "family-split"] {
        if strict.contains(k) { out.strict.push(k); }
    }
    Ok(out)
}

pub fn verdict(text: &str) -> String {
    match parse(text) {
        Ok(p) => format!("ok families:{} series:{} strict:{}", p.families, p.samples.len(),
                         if p.strict.is_empty() { "ok".to_string() } else { p.strict.join(",") }),
        Err(e) => format!("BAD:{e}"),
    }
}

pub fn run_case(line: &str) -> String {
    let h = line.trim();
    if h.len() % 2 != 0 || !h.chars().all(|c| c.is_ascii_hexdigit()) { return "BAD:not-hex@0".into(); }
    let bytes: Vec<u8> = (0..h.len() / 2).map(|i| u8::from_str_radix(&h[2 * i..2 * i + 2], 16).unwrap()).collect();
    match String::from_utf8(bytes) {
        Ok(t) => verdict(&t),
        Err(_) => "BAD:not-utf8@0".into(),
    }
}

pub fn special(_name: &str, _args: &[String]) -> bool { false }
