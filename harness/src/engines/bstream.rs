//! bstream: one BMP connection, end to end without sockets - the real
//! `RouterHandler::read_from_router` (framing in io.rs `bmp_read`, the read
//! loop, the post-loop cleanup) over a scripted reader. Serves C06 and C07.
//! Same case grammar as oracle/eng_bstream.ml (ops separated by ';'):
//!   T hex=descr,hex=descr,...   parse table of the frames the generator knows (full mode;
//!                               ignored here - the implementation parses for itself)
//!   B hex                       a chunk of bytes the reader hands out
//!   E kind                      the next read fails once with this io::ErrorKind
//!   G                           an HTTP client asks NOW - the connection has handed out the events
//!                               before this op and is asked for more; the reader stays silent until the
//!                               answers are in: GET /routers/ (real RouterListApi), GET /routers/<id> (real
//!                               RouterInfoApi of this connection) and the unit's metrics as /metrics renders
//!                               them. Observed `g:L<status>,I<status>,m<0|1>` and, in full mode,
//!                               `,e<number of recent parse errors the page lists>,o<1 iff oldest first>`;
//!                               `g:-` if the session ended before the reader got there. The metrics text goes
//!                               through the independent exposition-format reader (engines/promtext.rs): `m1` = it
//!                               is well formed and has BMP series, `mBAD:<class>@<line>` = it is not. In full mode
//!                               a second token follows, the unit level counters of this router read from that text:
//!                               `k:<received per type 0..6, dot separated>,p<processed>,i<invalid>,e<receive io errors>,
//!                               l<connections lost>,s<the state machine's unprocessable counter>`, `k:-,l..,s..` while
//!                               the router has no series yet, `k:-` if the visit was not made.
//!   H n                         back-pressure (C07): from the moment the reader gets here (it has handed out the
//!                               events before this op and is asked for more) the receiving end of the gate takes n
//!                               more updates and then HOLDS: the next update handed to it is not taken, so the
//!                               `gate.update_data(..).await` of the connection does not return. The harness lets an
//!                               hour pass on the runtime's (paused) clock while the update is held, then releases.
//!                               Observed `h:<kind of the update that was held: u|w|W|eos>`, `h:-` if none came,
//!                               `h:lost` if one was handed over and held but had not arrived once the task was
//!                               over and the receiving end released. The trace must be the trace without `H`.
//!   L                           contention on the ingress register (C07/C14): when the reader gets here another
//!                               party takes the register's WRITE lock (what update_info of any other connection
//!                               does) and keeps it until the connection's handler has left its read loop and has
//!                               had ample time to reach (and, did it not wait, to pass) ids_for_parent; then the lock
//!                               is released. Observed `lk:<1 iff the reader got here>`; the trace must be the trace
//!                               without `L` (the WithdrawBulk lists every child).
//!   Z eof | Z hang              what the reader does when the script is exhausted: end of
//!                               file (default), or stay pending - the harness then terminates
//!                               the unit's gate (unit shutdown)
//! Observation: `end:<what the reader did last> pos:<events consumed> tail:<last two updates>
//! eos:<count> cover:<ok|MISSING> K:<1 iff the router still has unit level series>,l<connections lost>,
//! c<bmp_num_connected_routers>` (the /metrics text after the session; `K:BAD:..` if it is malformed)
//! and, in full mode, `|` followed by every update that left
//! the gate. A panic of the session task (tokio catches it, the task dies) prints PANIC@<where> first.
use crate::engines::pipe::{update_bytes, POOL};
use crate::util::ops;
use bytes::Bytes;
use rotonda::bgp::encode as enc;
use rotonda::payload::{Update, UpstreamStatus};
use rotonda::verif::bmp_stream::StreamFixture;
use routecore::bmp::message::{PeerType, RibType};
use std::io::ErrorKind;
use std::net::{IpAddr, Ipv4Addr};
use std::pin::Pin;
use std::sync::atomic::{AtomicBool, AtomicUsize, Ordering::SeqCst};
use std::sync::{Arc, Mutex, OnceLock};
use std::task::{Context, Poll};
use tokio::io::{AsyncRead, ReadBuf};

/// frames longer than this are not executed (bmp_read allocates the declared length up front)
pub const CAP: usize = 1 << 20;

pub const KINDS: [(&str, ErrorKind); 21] = [
    ("timedout", ErrorKind::TimedOut),
    ("interrupted", ErrorKind::Interrupted),
    ("notfound", ErrorKind::NotFound),
    ("permissiondenied", ErrorKind::PermissionDenied),
    ("connectionrefused", ErrorKind::ConnectionRefused),
    ("connectionreset", ErrorKind::ConnectionReset),
    ("connectionaborted", ErrorKind::ConnectionAborted),
    ("notconnected", ErrorKind::NotConnected),
    ("addrinuse", ErrorKind::AddrInUse),
    ("addrnotavailable", ErrorKind::AddrNotAvailable),
    ("brokenpipe", ErrorKind::BrokenPipe),
    ("alreadyexists", ErrorKind::AlreadyExists),
    ("wouldblock", ErrorKind::WouldBlock),
    ("invalidinput", ErrorKind::InvalidInput),
    ("invaliddata", ErrorKind::InvalidData),
    ("writezero", ErrorKind::WriteZero),
    ("unsupported", ErrorKind::Unsupported),
    ("unexpectedeof", ErrorKind::UnexpectedEof),
    ("outofmemory", ErrorKind::OutOfMemory),
    ("other", ErrorKind::Other),
    // a kind the is_fatal table does not list (falls to its `_` arm)
    ("unlisted", ErrorKind::HostUnreachable),
];

#[derive(Clone)]
enum Ev { Bytes(Vec<u8>), Err(ErrorKind, &'static str), Get, Hold(usize), Lock }

/// hand-over between the scripted reader (which stays pending at a `G`) and the task that asks the pages
struct GetShared {
    served: AtomicUsize,
    waker: Mutex<Option<std::task::Waker>>,
    tx: tokio::sync::mpsc::UnboundedSender<()>,
}

#[derive(Default)]
struct Stats {
    consumed: AtomicUsize,
    wedged: AtomicBool,
    last: Mutex<String>,
}

struct ScriptReader {
    evs: Vec<Ev>,
    idx: usize,
    off: usize,
    hang: bool,
    eof_reads: usize,
    stats: Arc<Stats>,
    hang_tx: Option<tokio::sync::oneshot::Sender<()>>,
    gets: Option<Arc<GetShared>>,
    gets_passed: usize,
    get_asked: bool,
    /// the connection's fixture, for `H` and `L`
    fx: Option<Arc<StreamFixture>>,
    marks: Arc<Marks>,
}

/// what the reader did about `H` / `L`
#[derive(Default)]
struct Marks {
    hold_reached: AtomicBool,
    lock_reached: AtomicBool,
    /// the session's task is over (tells the other party of an `L` to let go)
    over: AtomicBool,
    contender: Mutex<Option<std::thread::JoinHandle<()>>>,
}

/// `L`: another party inside the register, as `update_info` is: it holds the write lock until this connection's
/// handler has left its read loop (router_connection_lost is the first thing the block after the loop does; the
/// next use of the register is ids_for_parent) plus a grace period in which a handler that does not wait for the
/// lock would be long gone. Returns once the lock is held.
fn contend(fx: Arc<StreamFixture>, marks: Arc<Marks>) -> std::thread::JoinHandle<()> {
    use std::time::{Duration, Instant};
    let (tx, rx) = std::sync::mpsc::channel::<()>();
    let m = marks.clone();
    let h = std::thread::spawn(move || {
        let reg = fx.register.clone();
        reg.verif_with_write_lock(|| {
            let _ = tx.send(());
            let t0 = Instant::now();
            while fx.connection_lost_count() == 0 && !m.over.load(SeqCst) && t0.elapsed() < Duration::from_millis(400) {
                std::thread::sleep(Duration::from_micros(100));
            }
            let t1 = Instant::now();
            while !m.over.load(SeqCst) && t1.elapsed() < Duration::from_millis(15) {
                std::thread::sleep(Duration::from_micros(200));
            }
        })
    });
    let _ = rx.recv();
    h
}

impl AsyncRead for ScriptReader {
    fn poll_read(self: Pin<&mut Self>, cx: &mut Context<'_>, buf: &mut ReadBuf<'_>) -> Poll<std::io::Result<()>> {
        let me = self.get_mut();
        if buf.remaining() == 0 {
            return Poll::Ready(Ok(()));
        }
        loop {
            match me.evs.get(me.idx) {
                Some(Ev::Bytes(b)) => {
                    if me.off >= b.len() { me.idx += 1; me.off = 0; continue; }
                    let n = buf.remaining().min(b.len() - me.off);
                    buf.put_slice(&b[me.off..me.off + n]);
                    me.off += n;
                    me.stats.consumed.fetch_add(n, SeqCst);
                    *me.stats.last.lock().unwrap() = "bytes".into();
                    return Poll::Ready(Ok(()));
                }
                Some(Ev::Err(k, name)) => {
                    let (k, name) = (*k, *name);
                    me.idx += 1;
                    me.stats.consumed.fetch_add(1, SeqCst);
                    *me.stats.last.lock().unwrap() = format!("e-{name}");
                    return Poll::Ready(Err(k.into()));
                }
                Some(Ev::Get) => {
                    // the reader is silent while the HTTP client is served
                    let Some(g) = me.gets.clone() else { me.idx += 1; continue; };
                    if g.served.load(SeqCst) > me.gets_passed {
                        me.gets_passed += 1; me.get_asked = false; me.idx += 1; continue;
                    }
                    *g.waker.lock().unwrap() = Some(cx.waker().clone());
                    if !me.get_asked { me.get_asked = true; let _ = g.tx.send(()); }
                    if g.served.load(SeqCst) > me.gets_passed { continue; }
                    return Poll::Pending;
                }
                Some(Ev::Hold(n)) => {
                    let n = *n;
                    me.idx += 1;
                    if let Some(fx) = &me.fx { fx.hold_updates_after(n); me.marks.hold_reached.store(true, SeqCst); }
                    continue;
                }
                Some(Ev::Lock) => {
                    me.idx += 1;
                    if let Some(fx) = &me.fx {
                        let h = contend(fx.clone(), me.marks.clone());
                        *me.marks.contender.lock().unwrap() = Some(h);
                        me.marks.lock_reached.store(true, SeqCst);
                    }
                    continue;
                }
                None if me.hang => {
                    *me.stats.last.lock().unwrap() = "hang".into();
                    if let Some(tx) = me.hang_tx.take() { let _ = tx.send(()); }
                    return Poll::Pending; // only the gate can end this read
                }
                None => {
                    me.eof_reads += 1;
                    *me.stats.last.lock().unwrap() = "eof".into();
                    if me.eof_reads > 16 {
                        // the handler keeps reading a closed connection: a busy loop in production
                        me.stats.wedged.store(true, SeqCst);
                        return Poll::Pending;
                    }
                    return Poll::Ready(Ok(())); // 0 bytes = end of file
                }
            }
        }
    }
}

fn unhex(s: &str) -> Vec<u8> {
    (0..s.len() / 2).map(|i| u8::from_str_radix(&s[2 * i..2 * i + 2], 16).expect("hex")).collect()
}
fn hex(b: &[u8]) -> String { b.iter().map(|x| format!("{x:02x}")).collect() }

/// Safety guard only (never part of an observation except the token HUGE): the declared
/// lengths a reader following RFC 7854 framing would meet, with the restart after a
/// non-fatal error that the code has.
fn declares_huge(evs: &[Ev]) -> bool {
    let mut flat: Vec<Option<u8>> = vec![];
    for e in evs { match e { Ev::Bytes(b) => flat.extend(b.iter().map(|x| Some(*x))), Ev::Err(..) => flat.push(None), Ev::Get | Ev::Hold(_) | Ev::Lock => {} } }
    let mut i = 0;
    'outer: while i < flat.len() {
        let mut h = vec![];
        while h.len() < 5 {
            match flat.get(i) { None => return false, Some(None) => { i += 1; continue 'outer; } Some(Some(b)) => { h.push(*b); i += 1; } }
        }
        let len = u32::from_be_bytes([h[1], h[2], h[3], h[4]]) as usize;
        if len > CAP { return true; }
        let mut need = len.saturating_sub(5);
        while need > 0 {
            match flat.get(i) { None => return false, Some(None) => { i += 1; continue 'outer; } Some(Some(_)) => { i += 1; need -= 1; } }
        }
    }
    false
}

/// where the last panic happened, canonical: `<crate dir>/src/...:line`
static LAST_PANIC: Mutex<String> = Mutex::new(String::new());

fn install_panic_recorder() {
    static ONCE: std::sync::Once = std::sync::Once::new();
    ONCE.call_once(|| {
        let prev = std::panic::take_hook();
        std::panic::set_hook(Box::new(move |info| {
            if let Some(l) = info.location() {
                let f = l.file();
                let canon = match f.find("/registry/src/") {
                    Some(i) => f[i + 14..].splitn(2, '/').nth(1).unwrap_or(f).to_string(),
                    None => match f.rfind("/src/") { Some(i) => format!("rotonda{}", &f[i..]), None => f.to_string() },
                };
                *LAST_PANIC.lock().unwrap() = format!("{}:{}", canon, l.line());
            }
            prev(info);
        }));
    });
}

fn runtime() -> &'static tokio::runtime::Runtime {
    static RT: OnceLock<tokio::runtime::Runtime> = OnceLock::new();
    RT.get_or_init(|| tokio::runtime::Builder::new_multi_thread().worker_threads(2).enable_all().build().unwrap())
}

fn name_of(fx: &StreamFixture, id: u32) -> String {
    if id == fx.router_id { return "router".into(); }
    if id == fx.unit_id { return "unit".into(); }
    match fx.register.get(id) {
        Some(i) => {
            let a = match i.remote_addr { Some(IpAddr::V4(a)) if a.octets()[..3] == [192, 0, 2] => a.octets()[3].to_string(), Some(a) => format!("[{a}]"), None => "-".into() };
            let s = i.remote_asn.map(|x| x.into_u32().to_string()).unwrap_or("-".into());
            let r = match i.rib_type { Some(RibType::AdjRibIn) => "0", Some(RibType::AdjRibOut) => "1", Some(RibType::LocRib) => "2", None => "-" };
            let par = if i.parent_ingress == Some(fx.router_id) { "" } else { "!parent" };
            format!("p{a}.{s}.{r}{par}")
        }
        None => format!("?{id}"),
    }
}

fn payload_ids(u: &Update) -> Vec<u32> {
    use rotonda::roto_runtime::types::RouteContext as RC;
    let of = |p: &rotonda::payload::Payload| match &p.context { RC::Fresh(c) => Some(c.provenance().ingress_id), RC::Mrt(c) => Some(c.provenance().ingress_id), _ => None };
    let mut v: Vec<u32> = match u {
        Update::Bulk(ps) => ps.iter().filter_map(of).collect(),
        Update::Single(p) => of(p).into_iter().collect(),
        Update::Withdraw(id, _) => vec![*id],
        _ => vec![],
    };
    v.sort(); v.dedup();
    v
}

/// BmpStreamModel.ids_of
fn ids_of(u: &Update) -> Vec<u32> {
    match u { Update::WithdrawBulk(ids) => ids.to_vec(), _ => payload_ids(u) }
}

fn show_update(fx: &StreamFixture, u: &Update) -> String {
    use rotonda_store::prelude::multi::RouteStatus;
    use rotonda::roto_runtime::types::RouteContext as RC;
    match u {
        Update::Bulk(ps) => {
            let (mut na, mut nw) = (0, 0);
            for p in ps.iter() {
                let st = match &p.context { RC::Fresh(c) => c.status, RC::Mrt(c) => c.status, _ => RouteStatus::Active };
                if st == RouteStatus::Active { na += 1 } else { nw += 1 }
            }
            let g: Vec<String> = payload_ids(u).iter().map(|i| name_of(fx, *i)).collect();
            format!("u:{}a{}w:{}", na, nw, g.join("|"))
        }
        Update::Single(_) => "u:single".into(),
        Update::Withdraw(id, None) => format!("w:{}", name_of(fx, *id)),
        Update::Withdraw(id, Some(_)) => format!("wf:{}", name_of(fx, *id)),
        Update::WithdrawBulk(ids) => {
            let mut g: Vec<String> = ids.iter().map(|i| name_of(fx, *i)).collect();
            g.sort();
            format!("W:[{}]", g.join(","))
        }
        Update::UpstreamStatusChange(UpstreamStatus::EndOfStream { ingress_id }) => format!("eos:{}", name_of(fx, *ingress_id)),
        Update::OutputStream(_) => "out".into(),
        Update::QueryResult(..) => "qr".into(),
    }
}

fn kind_char(u: &Update) -> &'static str {
    match u {
        Update::Bulk(_) | Update::Single(_) => "u",
        Update::Withdraw(..) => "w",
        Update::WithdrawBulk(_) => "W",
        Update::UpstreamStatusChange(_) => "eos",
        _ => "o",
    }
}

/// (seconds part, nanoseconds) of an RFC 3339 time as chrono prints it for Utc: `YYYY-MM-DDTHH:MM:SS[.fraction]+00:00`
fn rfc3339_key(t: &str) -> Option<(String, u64)> {
    let t = t.trim();
    if t.len() < 19 { return None; }
    let (secs, rest) = t.split_at(19);
    let frac: String = rest.strip_prefix('.').map(|r| r.chars().take_while(|c| c.is_ascii_digit()).collect()).unwrap_or_default();
    let mut ns = frac.clone();
    while ns.len() < 9 { ns.push('0'); }
    Some((secs.to_string(), ns[..9].parse().ok()?))
}

/// One visit of the HTTP client: router list, this router's page, the metrics. Each request runs in a task of
/// its own, as hyper runs a request handler: a panic kills that task only and shows here as `panic`.
async fn ask_pages(fx: &Arc<StreamFixture>, full: bool) -> String {
    let status = |r: Result<Option<(u16, Vec<u8>)>, tokio::task::JoinError>| -> (String, Vec<u8>) {
        match r {
            Ok(Some((st, body))) => (st.to_string(), body),
            Ok(None) => ("none".into(), vec![]),
            Err(e) if e.is_panic() => ("panic".into(), vec![]),
            Err(_) => ("cancelled".into(), vec![]),
        }
    };
    let f = fx.clone();
    let (l, lbody) = status(tokio::spawn(async move { f.http_get_router_list().await }).await);
    let f = fx.clone();
    let (i, ibody) = status(tokio::spawn(async move { f.http_get_router_info().await }).await);
    let f = fx.clone();
    let rid = fx.router_id;
    let (m, k) = match tokio::task::spawn_blocking(move || f.metrics_prometheus()).await {
        Ok(text) => match super::promtext::parse(&text) {
            Ok(p) => ((if text.contains("bmp") { "1" } else { "0" }).to_string(), unit_counters(&p, rid)),
            Err(e) => (format!("BAD:{e}"), "k:unreadable".to_string()),
        },
        Err(_) => ("panic".to_string(), "k:panic".to_string()),
    };
    // a page is a page: the list has the row of this connection's router (the link to its page)
    let link = format!("href=\"{}{}\"", StreamFixture::HTTP_API_PATH, fx.router_id);
    let l = if l == "200" && !String::from_utf8_lossy(&lbody).contains(&link) { "200-unlisted".to_string() } else { l };
    let page = String::from_utf8_lossy(&ibody).to_string();
    let mut tok = format!("g:L{l},I{i},m{m}");
    if full {
        let whens: Vec<Option<(String, u64)>> = page.lines().filter_map(|x| x.strip_prefix("  When: ")).map(rfc3339_key).collect();
        let sorted = whens.iter().all(|w| w.is_some()) && whens.windows(2).all(|w| w[0] <= w[1]);
        tok.push_str(&format!(",e{},o{}", whens.len(), sorted as u8));
        tok.push(' ');
        tok.push_str(&k);
    }
    tok
}

/// BMP_RFC_7854_MSG_TYPE_NAMES as RFC 7854 section 4.1 lists the types (the harness's own copy)
const TYPE_NAMES: [&str; 7] = ["Route Monitoring", "Statistics Report", "Peer Down Notification", "Peer Up Notification",
                               "Initiation Message", "Termination Message", "Route Mirroring Message"];

fn series_of_router<'a>(p: &'a super::promtext::Parsed, rid: u32) -> Vec<&'a super::promtext::Sample> {
    let r = rid.to_string();
    p.samples.iter().filter(|s| (s.name.starts_with("rotonda_bmp_tcp_in_") || s.name.starts_with("rotonda_bmp_in_")) && s.label("router") == Some(r.as_str())).collect()
}

/// the unit level counters of the router (src/units/bmp_tcp_in/metrics.rs) from a parsed /metrics text
fn unit_counters(p: &super::promtext::Parsed, rid: u32) -> String {
    let r = rid.to_string();
    let lost = p.get("rotonda_bmp_tcp_in_connection_lost_count_total", &[]).unwrap_or("?");
    let unproc = p.get("rotonda_bmp_state_num_unprocessable_bmp_messages_total", &[("router", &r)]).unwrap_or("0");
    let mine = series_of_router(p, rid);
    if mine.is_empty() { return format!("k:-,l{lost},s{unproc}"); }
    let recv: Vec<String> = TYPE_NAMES.iter().map(|t| {
        p.get("rotonda_bmp_tcp_in_num_bmp_messages_received_total", &[("router", &r), ("msg_type", t)]).unwrap_or("?").to_string()
    }).collect();
    let one = |n: &str| p.get(n, &[("router", &r)]).unwrap_or("?").to_string();
    // ten series per router, no more: seven per-type counters and the three others
    let extra = if mine.len() == 10 { String::new() } else { format!(",series{}", mine.len()) };
    format!("k:{},p{},i{},e{},l{lost},s{unproc}{extra}", recv.join("."), one("rotonda_bmp_tcp_in_num_bmp_messages_processed_total"),
            one("rotonda_bmp_in_num_invalid_bmp_messages_total"), one("rotonda_bmp_tcp_in_num_receive_io_errors_total"))
}

/// after the session: K:<1 iff the router still has unit level series>,l<connections lost>,c<bmp_num_connected_routers>
fn final_counters(fx: &StreamFixture) -> String {
    let text = fx.metrics_prometheus();
    match super::promtext::parse(&text) {
        Err(e) => format!("K:BAD:{e}"),
        Ok(p) => {
            let present = !series_of_router(&p, fx.router_id).is_empty();
            let lost = p.get("rotonda_bmp_tcp_in_connection_lost_count_total", &[]).unwrap_or("?");
            let conn = p.samples.iter().find(|s| s.name.starts_with("rotonda_bmp_num_connected_routers")).map(|s| s.value.as_str()).unwrap_or("?");
            format!("K:{},l{lost},c{conn}", present as u8)
        }
    }
}

pub fn run_case(line: &str) -> String {
    let mut evs: Vec<Ev> = vec![];
    let mut hang = false;
    let mut full = false;
    for op in ops(line) {
        match op[0] {
            "T" => full = true,
            "B" => evs.push(Ev::Bytes(unhex(op.get(1).copied().unwrap_or("")))),
            "E" => { let (n, k) = KINDS.iter().find(|(n, _)| *n == op[1]).expect("error kind"); evs.push(Ev::Err(*k, n)); }
            "Z" => hang = op[1] == "hang",
            "G" => evs.push(Ev::Get),
            "H" => evs.push(Ev::Hold(op[1].parse().expect("H n"))),
            "L" => evs.push(Ev::Lock),
            _ => panic!("bad op {:?}", op),
        }
    }
    if declares_huge(&evs) { return "HUGE".into(); }
    let count = |f: fn(&Ev) -> bool| evs.iter().filter(|e| f(e)).count();
    let (nh, nl, ng) = (count(|e| matches!(e, Ev::Hold(_))), count(|e| matches!(e, Ev::Lock)), count(|e| matches!(e, Ev::Get)));
    if nh > 1 || nl > 1 { panic!("at most one H and one L per case"); }
    if (nh + nl > 0 && ng > 0) || (nh > 0 && nl > 0) { panic!("H, L and G are not combined"); }
    // Unit shutdown reaches the connection through a gate clone that attaches itself to the unit's
    // gate from a spawned task (comms.rs Gate::clone); a clone that attaches after the Terminate
    // command went round is never told (tokio scheduling, outside the model). The harness waits a
    // moment before it terminates and repeats a run that got stuck on that path; a connection that
    // never ends on shutdown still prints STUCK.
    let mut res = String::new();
    for _attempt in 0..3 {
        res = if nh > 0 { run_held(evs.clone(), hang, full) } else { run_once(evs.clone(), hang, full) };
        if !(hang && res.starts_with("STUCK")) { break; }
    }
    res
}

fn run_once(evs: Vec<Ev>, hang: bool, full: bool) -> String {
    let stats = Arc::new(Stats::default());
    install_panic_recorder();
    LAST_PANIC.lock().unwrap().clear();
    let rt = runtime();
    let st = stats.clone();
    rt.block_on(async move {
        let (hang_tx, hang_rx) = tokio::sync::oneshot::channel();
        let n_gets = evs.iter().filter(|e| matches!(e, Ev::Get)).count();
        let (get_tx, mut get_rx) = tokio::sync::mpsc::unbounded_channel();
        let gets = Arc::new(GetShared { served: AtomicUsize::new(0), waker: Mutex::new(None), tx: get_tx });
        let n_locks = evs.iter().filter(|e| matches!(e, Ev::Lock)).count();
        let fx = Arc::new(StreamFixture::new("198.51.100.1:11019".parse().unwrap()).await);
        let marks = Arc::new(Marks::default());
        let reader = ScriptReader { evs, idx: 0, off: 0, hang, eof_reads: 0, stats: st.clone(), hang_tx: Some(hang_tx),
                                    gets: Some(gets.clone()), gets_passed: 0, get_asked: false, fx: Some(fx.clone()), marks: marks.clone() };
        // the HTTP client: serves one `G` at a time while the reader is silent
        let got: Arc<Mutex<Vec<String>>> = Arc::new(Mutex::new(vec![]));
        let (fx4, got2, gets2) = (fx.clone(), got.clone(), gets.clone());
        let client = tokio::spawn(async move {
            while get_rx.recv().await.is_some() {
                let tok = ask_pages(&fx4, full).await;
                got2.lock().unwrap().push(tok);
                gets2.served.fetch_add(1, SeqCst);
                if let Some(w) = gets2.waker.lock().unwrap().take() { w.wake(); }
            }
        });
        let fx2 = fx.clone();
        // as unit.rs accept_config does: the session is a spawned task; a panic kills the task only
        let mut task = tokio::spawn(async move { fx2.run(reader).await });
        let fx3 = fx.clone();
        let term = tokio::spawn(async move {
            if hang_rx.await.is_ok() {
                tokio::time::sleep(std::time::Duration::from_millis(2)).await;
                fx3.terminate().await
            }
        });
        let res = tokio::time::timeout(std::time::Duration::from_secs(3), &mut task).await;
        if res.is_err() { task.abort(); }
        term.abort();
        client.abort();
        // the other party of an `L` lets go of the register (the names of the trace are read from it)
        marks.over.store(true, SeqCst);
        let contender = marks.contender.lock().unwrap().take();
        if let Some(h) = contender { let _ = tokio::task::spawn_blocking(move || h.join()).await; }
        let head = match res {
            Err(_) => Some(if st.wedged.load(SeqCst) { "WEDGE".to_string() } else { "STUCK".to_string() }),
            Ok(Err(e)) if e.is_panic() => Some(format!("PANIC@{}", LAST_PANIC.lock().unwrap())),
            Ok(Err(_)) => Some("CANCELLED".into()),
            Ok(Ok(())) => None,
        };
        let mut mid: Vec<String> = vec![];
        {
            let got = got.lock().unwrap();
            for k in 0..n_gets { mid.push(got.get(k).cloned().unwrap_or_else(|| if full { "g:- k:-".into() } else { "g:-".into() })); }
        }
        for _ in 0..n_locks { mid.push(format!("lk:{}", marks.lock_reached.load(SeqCst) as u8)); }
        let phase = fx.phase().await;
        observation(&fx, &st, head, mid, full, phase)
    })
}

/// the observation of one run: see the head of this file
fn observation(fx: &StreamFixture, st: &Stats, head: Option<String>, mid: Vec<String>, full: bool, phase: u8) -> String {
    let mut out: Vec<String> = head.into_iter().collect();
    out.push(format!("end:{}", st.last.lock().unwrap()));
    out.push(format!("pos:{}", st.consumed.load(SeqCst)));
    let ups = fx.updates();
    let n = ups.len();
    let tail: Vec<&str> = ups[n.saturating_sub(2)..].iter().map(kind_char).collect();
    out.push(format!("tail:{}", if tail.is_empty() { "-".to_string() } else { tail.join(",") }));
    let eos: Vec<&Update> = ups.iter().filter(|u| matches!(u, Update::UpstreamStatusChange(_))).collect();
    out.push(format!("eos:{}", eos.len()));
    // the judgement of BmpStreamModel.cleanup_ok: the trace ends WithdrawBulk ids, EndOfStream router;
    // no other EndOfStream; every id an earlier update speaks about is in ids
    let cover = if n >= 2 && matches!(ups[n - 1], Update::UpstreamStatusChange(_)) && matches!(ups[n - 2], Update::WithdrawBulk(_)) {
        let ids: Vec<u32> = match &ups[n - 2] { Update::WithdrawBulk(ids) => ids.to_vec(), _ => vec![] };
        let eos_ok = matches!(&ups[n - 1], Update::UpstreamStatusChange(UpstreamStatus::EndOfStream { ingress_id }) if *ingress_id == fx.router_id);
        let pre = &ups[..n - 2];
        let no_other = !pre.iter().any(|u| matches!(u, Update::UpstreamStatusChange(_)));
        let all = pre.iter().flat_map(ids_of).all(|i| ids.contains(&i));
        if eos_ok && no_other && all { "ok" } else { "MISSING" }
    } else { "-" };
    out.push(format!("cover:{cover}"));
    out.push(final_counters(fx));
    out.extend(mid);
    if full {
        out.push("|".into());
        out.push(format!("phase:{phase}"));
        for u in ups.iter() { out.push(show_update(fx, u)); }
    }
    out.join(" ")
}

// ---- `H`: the connection under back-pressure, on a clock the harness moves ----------------------------------
// tokio's clock can only be paused on a current-thread runtime, and the connection cannot run ON such a runtime:
// a cloned Gate detaches in its Drop with block_in_place (comms.rs), which panics there. So the runtime of a held
// run is a current-thread runtime with a paused clock that carries the gate's tasks and every timer, and the
// connection's future (the real read_from_router) is driven by a small executor on a thread of the runtime's
// blocking pool (the runtime's handle is current there, block_in_place is allowed). While that thread lives the
// clock does not advance by itself (tokio inhibits auto-advance while a spawn_blocking task runs): time moves only
// when the harness says so, and the harness says so only when the session's thread has nothing left to do.
enum ExState { Running { woken: bool }, Idle, Notified, Done }
struct Exec { st: Mutex<ExState>, cv: std::sync::Condvar }
impl std::task::Wake for Exec {
    fn wake(self: Arc<Self>) { self.wake_by_ref() }
    fn wake_by_ref(self: &Arc<Self>) {
        let mut st = self.st.lock().unwrap();
        match *st {
            ExState::Running { .. } => *st = ExState::Running { woken: true },
            ExState::Idle => { *st = ExState::Notified; self.cv.notify_all(); }
            ExState::Notified | ExState::Done => {}
        }
    }
}
impl Exec {
    fn drive<F: std::future::Future>(self: &Arc<Self>, fut: F) -> F::Output {
        let waker = std::task::Waker::from(self.clone());
        let mut cx = Context::from_waker(&waker);
        let mut fut = std::pin::pin!(fut);
        loop {
            *self.st.lock().unwrap() = ExState::Running { woken: false };
            if let Poll::Ready(v) = fut.as_mut().poll(&mut cx) { return v; }
            let mut st = self.st.lock().unwrap();
            if matches!(*st, ExState::Running { woken: true }) { continue; }
            *st = ExState::Idle;
            while matches!(*st, ExState::Idle) { st = self.cv.wait(st).unwrap(); }
        }
    }
    /// nothing to do until somebody wakes it (or over)
    fn quiet(&self) -> bool { matches!(*self.st.lock().unwrap(), ExState::Idle | ExState::Done) }
    fn done(&self) -> bool { matches!(*self.st.lock().unwrap(), ExState::Done) }
}
struct SetDone(Arc<Exec>);
impl Drop for SetDone { fn drop(&mut self) { *self.0.st.lock().unwrap() = ExState::Done; } }

/// lets the tasks of this (current-thread) runtime run until neither they nor the session's thread have anything
/// left to do; waits in real time, the runtime's clock stands still
async fn settle(ex: &Arc<Exec>) {
    let mut calm = 0;
    while calm < 3 {
        for _ in 0..8 { tokio::task::yield_now().await; }
        if ex.quiet() { calm += 1 } else { calm = 0; std::thread::sleep(std::time::Duration::from_micros(50)); }
    }
}

fn run_held(evs: Vec<Ev>, hang: bool, full: bool) -> String {
    use std::time::Duration;
    let stats = Arc::new(Stats::default());
    install_panic_recorder();
    LAST_PANIC.lock().unwrap().clear();
    let rt = tokio::runtime::Builder::new_current_thread().enable_all().start_paused(true).build().unwrap();
    let st = stats.clone();
    // the fixture owns a cloned gate: it leaves block_on with the result and is dropped outside
    let (res, fx) = rt.block_on(async move {
        let (hang_tx, mut hang_rx) = tokio::sync::oneshot::channel();
        let fx = Arc::new(StreamFixture::new("198.51.100.1:11019".parse().unwrap()).await);
        let marks = Arc::new(Marks::default());
        let reader = ScriptReader { evs, idx: 0, off: 0, hang, eof_reads: 0, stats: st.clone(), hang_tx: Some(hang_tx),
                                    gets: None, gets_passed: 0, get_asked: false, fx: Some(fx.clone()), marks: marks.clone() };
        let ex = Arc::new(Exec { st: Mutex::new(ExState::Running { woken: false }), cv: std::sync::Condvar::new() });
        let (fx2, ex2) = (fx.clone(), ex.clone());
        // as unit.rs accept_config does: the session is a task of its own; a panic kills that task only
        let task = tokio::task::spawn_blocking(move || {
            let _done = SetDone(ex2.clone());
            ex2.drive(fx2.run(reader))
        });
        let t0 = std::time::Instant::now();
        let hour = Duration::from_secs(3600);
        let (mut terminated, mut stuck) = (false, false);
        // (index of the update the receiving end sat on, the task was over before it let go)
        let mut held: Option<(usize, bool)> = None;
        loop {
            settle(&ex).await;
            if ex.done() { break; }
            if t0.elapsed() > Duration::from_secs(3) { stuck = true; break; }
            if fx.holding() && fx.parked() > 0 {
                let idx = fx.updates().len();
                let before = tokio::time::Instant::now();
                tokio::time::advance(hour).await;
                settle(&ex).await;
                assert!(tokio::time::Instant::now() - before >= hour, "the clock did not move");
                held = Some((idx, ex.done()));
                fx.hold_updates(false);
                continue;
            }
            if !terminated && hang_rx.try_recv().is_ok() {
                // unit shutdown while the read is pending (the clones of the gate have attached by now: settle)
                fx.terminate().await;
                terminated = true;
                continue;
            }
            std::thread::sleep(Duration::from_micros(100));
        }
        if fx.holding() { fx.hold_updates(false); }
        let joined = if stuck { None } else { Some(task.await) };
        settle_plain().await;
        let head = match joined {
            None => Some(if st.wedged.load(SeqCst) { "WEDGE".to_string() } else { "STUCK".to_string() }),
            Some(Err(e)) if e.is_panic() => Some(format!("PANIC@{}", LAST_PANIC.lock().unwrap())),
            Some(Err(_)) => Some("CANCELLED".into()),
            Some(Ok(())) => None,
        };
        let ups = fx.updates();
        let h = match held {
            None => "h:-".to_string(),
            Some((idx, _)) if idx >= ups.len() => "h:lost".to_string(),
            Some((idx, over)) => format!("h:{}{}", kind_char(&ups[idx]), if over { "!task-over-before-release" } else { "" }),
        };
        let phase = fx.phase().await;
        (observation(&fx, &st, head, vec![h], full, phase), fx)
    });
    // a session that is stuck keeps its thread (and the fixture) for good: do not wait for it
    // (the fixture's Link spawns a task when dropped, its Gate clone detaches with block_in_place: the runtime's handle has
    // to be current, but this thread must not be inside the runtime)
    { let _g = rt.enter(); drop(fx); }
    rt.shutdown_background();
    res
}

async fn settle_plain() { for _ in 0..16 { tokio::task::yield_now().await; } }

// ---- rendering of well-formed messages for the generators (the pool of eng pipe) ----
fn pph(i: usize) -> enc::PerPeerHeader {
    let (t, l, o, d, a, s, b) = POOL[i];
    let pt = match t { 0 => PeerType::GlobalInstance, 1 => PeerType::RdInstance, 2 => PeerType::LocalInstance, _ => PeerType::LocalRibInstance };
    enc::PerPeerHeader {
        peer_type: pt.into(),
        peer_flags: (l << 6) | (o << 4),
        peer_distinguisher: [0, 0, 0, 0, 0, 0, 0, d],
        peer_address: IpAddr::V4(Ipv4Addr::new(192, 0, 2, a)),
        peer_as: inetnum::asn::Asn::from_u32(s),
        peer_bgp_id: [0, 0, 0, b],
    }
}
fn eor_bytes(f: u32) -> Bytes {
    if f == 0 {
        return enc::mk_bgp_update(&enc::Prefixes::default(), &enc::Announcements::None, &[]);
    }
    let (afi, safi): (u8, u8) = match f { 1 => (2, 1), 2 => (1, 2), _ => (2, 2) };
    let mut v = vec![0xffu8; 16];
    v.extend_from_slice(&[0, 29, 2, 0, 0, 0, 6, 0x80, 15, 3, 0, afi, safi]);
    Bytes::from(v)
}
fn malformed_update() -> Bytes {
    let mut v = vec![0xffu8; 16];
    let body: Vec<u8> = vec![0, 0, 0, 0, 33, 10, 1, 2, 3, 4];
    let len = 19 + body.len() as u16;
    v.extend_from_slice(&len.to_be_bytes());
    v.push(2);
    v.extend_from_slice(&body);
    Bytes::from(v)
}

/// descriptor: I | X | S.i | U.i.e | D.i | R.i.af.a.ps.wf.ws | E.i.f | N.i | RB.i.hex   (ps/ws: 1+2+3 or -)
pub fn render(d: &str) -> Bytes {
    let f: Vec<&str> = d.split('.').collect();
    let n = |i: usize| f[i].parse::<u32>().unwrap();
    let l = |i: usize| f[i].replace('+', ",");
    match f[0] {
        "I" => enc::mk_initiation_msg("r", "d"),
        "X" => enc::mk_termination_msg(),
        "S" => enc::mk_statistics_report_msg(&pph(n(1) as usize)),
        // Route Mirroring (type 6): common header, per-peer header, four octets of TLV space (routecore checks the two headers only)
        "M" => { let mut v = enc::mk_statistics_report_msg(&pph(n(1) as usize)).to_vec(); v[5] = 6; Bytes::from(v) }
        "U" => enc::mk_peer_up_notification_msg(&pph(n(1) as usize), "10.0.0.1".parse().unwrap(), 11019, 4567, 111, 222, 0, 0, vec![], n(2) == 1),
        "D" => super::pipe::peer_down_msg(&pph(n(1) as usize), f.get(2).map(|r| r.parse().unwrap())),
        "R" => enc::mk_raw_route_monitoring_msg(&pph(n(1) as usize), update_bytes(n(2), n(3), &l(4), n(5), &l(6))),
        "E" => enc::mk_raw_route_monitoring_msg(&pph(n(1) as usize), eor_bytes(n(2))),
        "N" => enc::mk_raw_route_monitoring_msg(&pph(n(1) as usize), malformed_update()),
        // RB.i.<hex>: the octets of a BGP UPDATE (from C04's proved encoder, oracle c04enc) in a Route Monitoring message of peer i
        "RB" => enc::mk_raw_route_monitoring_msg(&pph(n(1) as usize), Bytes::from(unhex(f[2]))),
        _ => panic!("bad descriptor {d}"),
    }
}

/// bstream-gauge: `rotonda_bmp_num_connected_routers` as /metrics renders it, before the connection,
/// while it is up (Initiation + Peer Up read, next read pending) and after it was lost.
fn gauge_probe() {
    fn gauge(fx: &StreamFixture) -> String {
        fx.metrics_prometheus().lines().filter(|l| l.starts_with("rotonda_bmp_num_connected_routers")).map(|l| l.rsplit(' ').next().unwrap_or("?").to_string()).collect::<Vec<_>>().join(",")
    }
    let evs = vec![Ev::Bytes(render("I").to_vec()), Ev::Bytes(render("U.0.1").to_vec())];
    runtime().block_on(async move {
        let (hang_tx, hang_rx) = tokio::sync::oneshot::channel();
        let stats = Arc::new(Stats::default());
        let reader = ScriptReader { evs, idx: 0, off: 0, hang: true, eof_reads: 0, stats, hang_tx: Some(hang_tx), gets: None, gets_passed: 0, get_asked: false, fx: None, marks: Default::default() };
        let fx = Arc::new(StreamFixture::new("198.51.100.1:11019".parse().unwrap()).await);
        let before = gauge(&fx);
        let fx2 = fx.clone();
        let task = tokio::spawn(async move { fx2.run(reader).await });
        let _ = hang_rx.await;
        let during = gauge(&fx);
        tokio::time::sleep(std::time::Duration::from_millis(5)).await;
        fx.terminate().await;
        let _ = tokio::time::timeout(std::time::Duration::from_secs(3), task).await;
        let ups: Vec<String> = fx.updates().iter().map(|u| show_update(&fx, u)).collect();
        println!("connected-routers before:{before} up:{during} after-connection-lost:{} updates:{}", gauge(&fx), ups.join(" "));
    });
}

/// bstream-e2e <close|reset|shutdown|short> [cut]: the same connection over a real loopback TCP
/// stream through the real accept_config of unit.rs: Initiation, Peer Up, an announcement (cut after
/// `cut` bytes if given), then the client closes / resets the connection, or the unit is shut down, or
/// a header with length field 0 is sent. Prints whether the router is still in router_states /
/// router_info afterwards (what GET /routers/ lists) and the updates that left the gate.
fn e2e(mode: &str, cut: Option<usize>) {
    use tokio::io::AsyncWriteExt;
    let mut bytes: Vec<u8> = vec![];
    for d in ["I", "U.0.1", "R.0.0.1.1+2.0.-"] { bytes.extend_from_slice(&render(d)); }
    if let Some(c) = cut { bytes.truncate(c.min(bytes.len())); }
    if mode == "short" { bytes.extend_from_slice(&[3, 0, 0, 0, 0]); }
    let mode = mode.to_string();
    runtime().block_on(async move {
        let listener = tokio::net::TcpListener::bind("127.0.0.1:0").await.expect("loopback");
        let addr = listener.local_addr().unwrap();
        let mut client = tokio::net::TcpStream::connect(addr).await.unwrap();
        let (server, peer) = listener.accept().await.unwrap();
        let mut fx = StreamFixture::new(peer).await;
        let before = fx.listed();
        fx.accept(server);
        client.write_all(&bytes).await.unwrap();
        client.flush().await.unwrap();
        tokio::time::sleep(std::time::Duration::from_millis(30)).await;
        let during = fx.listed();
        match mode.as_str() {
            "close" => drop(client),
            "reset" => { client.set_linger(Some(std::time::Duration::from_secs(0))).unwrap(); drop(client) }
            "shutdown" => { fx.terminate().await; tokio::time::sleep(std::time::Duration::from_millis(50)).await; drop(client) }
            _ => { tokio::time::sleep(std::time::Duration::from_millis(50)).await; }
        }
        let mut after = fx.listed();
        for _ in 0..300 {
            if after == (false, false) { break; }
            tokio::time::sleep(std::time::Duration::from_millis(10)).await;
            after = fx.listed();
        }
        let b = |x: (bool, bool)| format!("{},{}", x.0 as u8, x.1 as u8);
        let ups: Vec<String> = fx.updates().iter().map(|u| show_update(&fx, u)).collect();
        println!("listed-before:{} listed-up:{} listed-after:{} updates:{}", b(before), b(during), b(after), ups.join(" "));
    });
}

/// bstream-expo [raw]: the /metrics text of the unit while one router is connected and has sent an Initiation, a Peer
/// Up and an unparsable frame (so that it has unit level and state machine series), through the independent reader.
fn expo_probe(raw: bool) {
    let mut bytes = render("I").to_vec();
    bytes.extend_from_slice(&render("U.0.1"));
    bytes.extend_from_slice(&[3, 0, 0, 0, 6, 9]);
    let evs = vec![Ev::Bytes(bytes)];
    runtime().block_on(async move {
        let (hang_tx, hang_rx) = tokio::sync::oneshot::channel();
        let stats = Arc::new(Stats::default());
        let reader = ScriptReader { evs, idx: 0, off: 0, hang: true, eof_reads: 0, stats, hang_tx: Some(hang_tx), gets: None, gets_passed: 0, get_asked: false, fx: None, marks: Default::default() };
        let fx = Arc::new(StreamFixture::new("198.51.100.1:11019".parse().unwrap()).await);
        let fx2 = fx.clone();
        let task = tokio::spawn(async move { fx2.run(reader).await });
        let _ = hang_rx.await;
        let text = fx.metrics_prometheus();
        if raw { print!("{text}"); }
        println!("up: {}", super::promtext::verdict(&text));
        tokio::time::sleep(std::time::Duration::from_millis(5)).await;
        fx.terminate().await;
        let _ = tokio::time::timeout(std::time::Duration::from_secs(3), task).await;
        println!("after: {}", super::promtext::verdict(&fx.metrics_prometheus()));
    });
}

pub fn special(name: &str, _args: &[String]) -> bool {
    if name == "bstream-gauge" { gauge_probe(); return true; }
    if name == "bstream-expo" { expo_probe(_args.first().map(|s| s == "raw").unwrap_or(false)); return true; }
    if name == "bstream-e2e" {
        e2e(_args.first().map(|s| s.as_str()).unwrap_or("close"), _args.get(1).and_then(|s| s.parse().ok()));
        return true;
    }
    if name == "bstream-render" {
        // one descriptor per stdin line -> hex of the BMP message
        use std::io::BufRead;
        for line in std::io::stdin().lock().lines() {
            let line = line.unwrap();
            println!("{}", hex(&render(line.trim())));
        }
        return true;
    }
    false
}
