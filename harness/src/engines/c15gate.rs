//! C15, gate part: GateMetrics num_updates / num_dropped_updates on the real Gate. Same case
//! grammar and observation as engine c08 (c08.rs); the `M` op reads the counters.
pub fn run_case(line: &str) -> String { super::c08::run_case(line) }
pub fn special(_name: &str, _args: &[String]) -> bool { false }
