//! C13: config (re)load. Same case grammar as oracle/eng_c13.ml.
//!
//! A case is a history of loads separated by ';'. One load:
//!   D <syntax-ok> <top-ok> , u <name> <ty> <src> <ok> <vribs> <cfg> , t <name> <ty> <src> <ok> <cfg> , ...
//! <src>: '-' (no `sources` key) | S:<n> (a string) | A[:<n>|:x]* (an array; x = a non-string element) | B (an integer)
//! The abstract document is rendered as TOML text and goes through exactly
//! what src/main.rs does on SIGHUP: ConfigFile::new -> Config::from_config_file
//! (Manager::load, Manager::prepare) -> Manager::spawn_internal, the latter
//! with recording stubs (rotonda::manager::verif, the technique of the
//! manager tests). Observation per load: E (failed) or ok + the sorted action
//! log, then the running components with type, settings token and resolved
//! wiring.
use rotonda::verif::manager::{
    gates_table_names, reset_thread_local_tables, Action, Config, ConfigFile, Manager, Source,
};
use std::collections::BTreeMap;

const UNIT_TYPES: [&str; 5] = ["bgp-tcp-in", "bmp-tcp-in", "filter", "rib", "mrt-file-in"];
const TARGET_TYPES: [&str; 3] = ["file-out", "mqtt-out", "null-out"];

fn nm(k: &str) -> String { format!("n{:02}", k.parse::<u32>().unwrap()) }

fn sources_toml(src: &str) -> Option<String> {
    if src == "-" { return None; }
    if src == "B" { return Some("sources = 3".into()); }
    if let Some(n) = src.strip_prefix("S:") { return Some(format!("sources = \"{}\"", nm(n))); }
    if let Some(rest) = src.strip_prefix('A') {
        let items: Vec<String> = rest.split(':').filter(|s| !s.is_empty())
            .map(|s| if s == "x" { "5".to_string() } else { format!("\"{}\"", nm(s)) }).collect();
        return Some(format!("sources = [{}]", items.join(", ")));
    }
    panic!("bad src {src}");
}

/// Renders one load op as TOML text.
pub fn toml_of(op: &str) -> String {
    let mut parts = op.split(',').map(|p| p.split_whitespace().collect::<Vec<_>>());
    let head = parts.next().unwrap();
    assert!(head.len() == 3 && head[0] == "D", "bad load head {head:?}");
    let mut top = String::from("http_listen = []\n");
    if head[2] == "0" { top.push_str("aaa_bogus = 1\n"); }
    let mut units = String::from("[units]\n");
    let mut targets = String::from("[targets]\n");
    for p in parts {
        if p.is_empty() { continue; }
        let cfg = |i: usize| p[i].to_string();
        match p[0] {
            "u" => {
                assert!(p.len() == 7, "bad unit {p:?}");
                let ty: usize = p[2].parse().unwrap();
                let ok = p[4] == "1";
                let vribs: usize = p[5].parse().unwrap();
                let c = cfg(6);
                units.push_str(&format!("[units.{}]\n", nm(p[1])));
                units.push_str(&format!("type = \"{}\"\n", UNIT_TYPES.get(ty).copied().unwrap_or("bogus-in")));
                if let Some(s) = sources_toml(p[3]) { units.push_str(&s); units.push('\n'); }
                match ty {
                    0 => {
                        units.push_str(if ok { "listen = \"127.0.0.1:11179\"\n" } else { "listen = 5\n" });
                        units.push_str(&format!("my_asn = 64512\nmy_bgp_id = [1,2,3,4]\nfilter_name = \"cfg{c}\"\n"));
                    }
                    1 => {
                        units.push_str(if ok { "listen = \"127.0.0.1:11019\"\n" } else { "listen = \"nonsense\"\n" });
                        units.push_str(&format!("router_id_template = \"cfg{c}\"\n"));
                    }
                    2 => units.push_str(&if ok { format!("filter_name = \"cfg{c}\"\n") } else { "filter_name = 5\n".to_string() }),
                    3 => {
                        units.push_str(&if ok { format!("http_api_path = \"/cfg{c}/\"\n") } else { "http_api_path = 5\n".to_string() });
                        if vribs > 0 {
                            let fs: Vec<String> = (0..vribs).map(|i| format!("\"f{i}\"")).collect();
                            units.push_str(&format!("filter_names = [{}]\n", fs.join(", ")));
                        }
                    }
                    4 => if ok { units.push_str(&format!("filename = \"cfg{c}.mrt\"\n")) },
                    _ => {}
                }
            }
            "t" => {
                assert!(p.len() == 6, "bad target {p:?}");
                let ty: usize = p[2].parse().unwrap();
                let ok = p[4] == "1";
                let c = cfg(5);
                targets.push_str(&format!("[targets.{}]\n", nm(p[1])));
                targets.push_str(&format!("type = \"{}\"\n", TARGET_TYPES.get(ty).copied().unwrap_or("bogus-out")));
                if let Some(s) = sources_toml(p[3]) { targets.push_str(&s); targets.push('\n'); }
                match ty {
                    0 => targets.push_str(&format!("format = \"{}\"\nfilename = \"cfg{c}.out\"\n", if ok { "csv" } else { "xml" })),
                    1 => targets.push_str(&format!("destination = \"localhost\"\nclient_id = \"cfg{c}\"\n{}", if ok { "" } else { "qos = \"high\"\n" })),
                    _ => {}
                }
            }
            x => panic!("bad component kind {x}"),
        }
    }
    let mut doc = format!("{top}{units}{targets}");
    if head[1] == "0" { doc.push_str("[[[\n"); }
    doc
}

fn cfg_token(debug: &str) -> String {
    if let Some(i) = debug.find("cfg") {
        let d: String = debug[i + 3..].chars().take_while(|c| c.is_ascii_digit()).collect();
        if !d.is_empty() { return format!("cfg{d}"); }
    }
    "-".into()
}

fn link_gate_ids(debug: &str) -> Vec<String> {
    let mut out = vec![];
    let pat = "gate_id: ";
    let mut rest = debug;
    while let Some(i) = rest.find(pat) {
        let s = &rest[i + pat.len()..];
        out.push(s.chars().take(36).collect());
        rest = s;
    }
    out
}

#[derive(Clone)]
struct Tracked { ty: String, cfg: String, gate: Option<String>, links: Vec<String> }

struct St {
    mgr: Manager,
    units: BTreeMap<String, Tracked>,
    targets: BTreeMap<String, Tracked>,
}

impl St {
    fn apply(&mut self, a: &Action) -> String {
        match a {
            Action::SpawnUnit { name, type_name, gate_id, config } => {
                self.units.insert(name.clone(), Tracked { ty: type_name.to_string(), cfg: cfg_token(config), gate: Some(gate_id.to_string()), links: link_gate_ids(config) });
                format!("+u:{name}")
            }
            Action::ReconfigureUnit { name, type_name, new_gate_id, config } => {
                // a unit that honours Reconfigure takes over the new gate (comms.rs, GateCommand::Reconfigure)
                self.units.insert(name.clone(), Tracked { ty: type_name.to_string(), cfg: cfg_token(config), gate: Some(new_gate_id.to_string()), links: link_gate_ids(config) });
                format!("~u:{name}")
            }
            Action::TerminateUnit { name } => { self.units.remove(name); format!("-u:{name}") }
            Action::SpawnTarget { name, type_name, config } => {
                self.targets.insert(name.clone(), Tracked { ty: type_name.to_string(), cfg: cfg_token(config), gate: None, links: link_gate_ids(config) });
                format!("+t:{name}")
            }
            Action::ReconfigureTarget { name, type_name, config } => {
                self.targets.insert(name.clone(), Tracked { ty: type_name.to_string(), cfg: cfg_token(config), gate: None, links: link_gate_ids(config) });
                format!("~t:{name}")
            }
            Action::TerminateTarget { name } => { self.targets.remove(name); format!("-t:{name}") }
        }
    }

    fn resolve(&self, gate: &str, running_units: &[String]) -> String {
        for (n, t) in &self.units {
            if t.gate.as_deref() == Some(gate) && running_units.contains(n) { return n.clone(); }
        }
        "?".into()
    }

    fn state_tokens(&self) -> Vec<String> {
        let mut ru = self.mgr.verif_running_units();
        ru.sort();
        let mut rt = self.mgr.verif_running_targets();
        rt.sort();
        let mut out = vec![];
        for (kind, names, map) in [("u", &ru, &self.units), ("t", &rt, &self.targets)] {
            for n in names.iter() {
                match map.get(n) {
                    Some(t) => {
                        let mut ups: Vec<String> = t.links.iter().map(|g| self.resolve(g, &ru)).collect();
                        ups.sort();
                        ups.dedup();
                        out.push(format!("{kind}:{n}:{}:{}<-{}", t.ty, t.cfg, ups.join(",")));
                    }
                    None => out.push(format!("{kind}:{n}:untracked")),
                }
            }
        }
        out
    }

    /// What main.rs does on SIGHUP (and at start-up), with recording stubs for the spawn step.
    fn load(&mut self, op: &str) -> Vec<String> {
        let text = toml_of(op);
        let mut toks = vec![];
        let res = ConfigFile::new(text.into_bytes(), Source::default())
            .map_err(|_| ())
            .and_then(|file| Config::from_config_file(file, &mut self.mgr).map_err(|_| ()));
        match res {
            Err(()) => toks.push("E".to_string()),
            Ok((_source, mut config)) => {
                toks.push("ok".to_string());
                let log = self.mgr.verif_spawn_recorded(&mut config);
                let mut acts: Vec<String> = log.iter().map(|a| self.apply(a)).collect();
                acts.sort();
                toks.extend(acts);
            }
        }
        toks
    }
}

pub fn run_case(line: &str) -> String {
    let rt = tokio::runtime::Builder::new_current_thread().enable_all().build().unwrap();
    let _g = rt.enter();
    reset_thread_local_tables();
    let mut st = St { mgr: Manager::new(), units: BTreeMap::new(), targets: BTreeMap::new() };
    let mut out: Vec<String> = vec![];
    for (k, op) in line.split(';').filter(|s| !s.trim().is_empty()).enumerate() {
        out.push(format!("[{k}"));
        let r = std::panic::catch_unwind(std::panic::AssertUnwindSafe(|| st.load(op)));
        match r {
            Ok(toks) => out.extend(toks),
            Err(e) => {
                // the process would be gone: nothing after a panic is observable
                if std::env::var("C13_DEBUG").is_ok() { eprintln!("panic: {}", crate::util::panic_msg(&e)); }
                out.push("PANIC".into());
                out.push("]".into());
                break;
            }
        }
        out.push("|".into());
        out.extend(st.state_tokens());
        out.push("]".into());
    }
    drop(st);
    out.join(" ")
}

pub fn special(name: &str, args: &[String]) -> bool {
    match name {
        // c13-toml: prints the TOML text of every load of the case lines on stdin
        "c13-toml" => {
            let _ = args;
            for line in std::io::stdin().lines() {
                let line = line.unwrap();
                for op in line.split(';').filter(|s| !s.trim().is_empty()) {
                    println!("# ---- {op}\n{}", toml_of(op));
                }
            }
            true
        }
        // c13-tables: after running the case lines, prints the names left in the thread-local GATES table and in pending_gates
        "c13-tables" => {
            for line in std::io::stdin().lines() {
                let line = line.unwrap();
                let rt = tokio::runtime::Builder::new_current_thread().enable_all().build().unwrap();
                let _g = rt.enter();
                reset_thread_local_tables();
                let mut st = St { mgr: Manager::new(), units: BTreeMap::new(), targets: BTreeMap::new() };
                for op in line.split(';').filter(|s| !s.trim().is_empty()) {
                    let r = std::panic::catch_unwind(std::panic::AssertUnwindSafe(|| st.load(op)));
                    let mut g = gates_table_names();
                    g.sort();
                    let mut p = st.mgr.verif_pending_gates();
                    p.sort();
                    println!("{} gates={:?} pending={:?}", match r { Ok(t) => t.join(" "), Err(_) => "PANIC".into() }, g, p);
                }
            }
            true
        }
        _ => false,
    }
}
