//! confdef (C13): field-level configuration defaults of bmp-tcp-in, rib and mqtt-out.
//! The case's tables are rendered as TOML TEXT and go through what src/main.rs does at
//! start-up and on SIGHUP - ConfigFile::new -> Config::from_config_file (Manager::load:
//! the real serde Deserialize of every unit and target) -> Manager::spawn_internal with
//! recording stubs (rotonda::manager::verif, as engine c13) - and the settings each
//! component is started / reconfigured with are read off the recorded configuration
//! (its Debug rendering: the fields are private).
//! Same case grammar as oracle/eng_confdef.ml: loads separated by ';', one load =
//!   b <http_api_path> <router_id_template> , r <http_api_path> , m <qos> <topic_template> <connect_retry_secs> <publish_max_secs> <queue_size>
//! value: - unset | i<int> | s<text> | o (`true`).
//! Observation per load: E | ok b:<k=v,..> r:<k=v,..> m:<k=v,..>   (v = i<int> | s<text>)
use rotonda::verif::manager::{reset_thread_local_tables, Action, Config, ConfigFile, Manager, Source};

const BMP_KEYS: [&str; 2] = ["http_api_path", "router_id_template"];
const RIB_KEYS: [&str; 1] = ["http_api_path"];
const MQTT_KEYS: [&str; 5] = ["qos", "topic_template", "connect_retry_secs", "publish_max_secs", "queue_size"];

fn value_text(tok: &str) -> Option<String> {
    if tok == "-" { return None; }
    Some(match tok.as_bytes()[0] {
        b'i' => tok[1..].parse::<i128>().expect("integer").to_string(),
        b's' => format!("\"{}\"", &tok[1..]),
        _ => "true".to_string(),
    })
}

fn keys_text(keys: &[&str], toks: &[&str]) -> String {
    assert_eq!(keys.len(), toks.len(), "one value token per key");
    keys.iter().zip(toks).filter_map(|(k, t)| value_text(t).map(|v| format!("{k} = {v}\n"))).collect()
}

pub fn toml_of(op: &str) -> String {
    let mut b = String::new();
    let mut r = String::new();
    let mut m = String::new();
    for comp in op.split(',') {
        let w: Vec<&str> = comp.split_whitespace().collect();
        if w.is_empty() { continue; }
        match w[0] {
            "b" => b = keys_text(&BMP_KEYS, &w[1..]),
            "r" => r = keys_text(&RIB_KEYS, &w[1..]),
            "m" => m = keys_text(&MQTT_KEYS, &w[1..]),
            x => panic!("bad component {x}"),
        }
    }
    format!(
        "http_listen = []\n\n[units.bmp-in]\ntype = \"bmp-tcp-in\"\nlisten = \"127.0.0.1:11019\"\n{b}\n\
         [units.rib]\ntype = \"rib\"\nsources = [\"bmp-in\"]\n{r}\n\
         [targets.mqtt]\ntype = \"mqtt-out\"\nsources = [\"rib\"]\ndestination = \"localhost\"\nclient_id = \"confdef\"\n{m}"
    )
}

/// the value of field `name` in a `{:?}` rendering: a quoted string, or the text up to the next `,` / ` }` / `)`
fn field(debug: &str, name: &str) -> String {
    let pat = format!("{name}: ");
    let Some(i) = debug.find(&pat) else { return "?".into() };
    let rest = &debug[i + pat.len()..];
    if let Some(s) = rest.strip_prefix('"') {
        let mut out = String::new();
        let mut esc = false;
        for c in s.chars() {
            if esc { out.push(c); esc = false; }
            else if c == '\\' { esc = true; }
            else if c == '"' { break; }
            else { out.push(c); }
        }
        return format!("s{out}");
    }
    let end = rest.find(|c| c == ',' || c == ' ' || c == ')' || c == '}').unwrap_or(rest.len());
    let tok = &rest[..end];
    // a Duration of whole seconds prints as `60s` (`0ns` for zero)
    if let Some(n) = tok.strip_suffix("ns") { if n == "0" { return "i0".into(); } return format!("?{tok}"); }
    if let Some(n) = tok.strip_suffix('s') { if n.parse::<u64>().is_ok() { return format!("i{n}"); } }
    if tok.parse::<i128>().is_ok() { return format!("i{tok}"); }
    format!("?{tok}")
}

fn settings(debug: &str, keys: &[&str]) -> String {
    keys.iter().enumerate().map(|(k, name)| format!("{k}={}", field(debug, name))).collect::<Vec<_>>().join(",")
}

fn load(mgr: &mut Manager, op: &str) -> String {
    let text = toml_of(op);
    if std::env::var("VH_DEBUG").is_ok() { eprintln!("---- load\n{text}"); }
    let res = ConfigFile::new(text.into_bytes(), Source::default())
        .map_err(|_| ())
        .and_then(|file| Config::from_config_file(file, mgr).map_err(|_| ()));
    let Ok((_source, mut config)) = res else { return "E".into() };
    let log = mgr.verif_spawn_recorded(&mut config);
    let (mut b, mut r, mut m) = (String::from("?"), String::from("?"), String::from("?"));
    for a in &log {
        let (name, cfg) = match a {
            Action::SpawnUnit { name, config, .. } | Action::ReconfigureUnit { name, config, .. } => (name.as_str(), config),
            Action::SpawnTarget { name, config, .. } | Action::ReconfigureTarget { name, config, .. } => (name.as_str(), config),
            _ => continue,
        };
        if std::env::var("VH_DEBUG").is_ok() { eprintln!("{name}: {cfg}"); }
        match name {
            "bmp-in" => b = settings(cfg, &BMP_KEYS),
            "rib" => r = settings(cfg, &RIB_KEYS),
            "mqtt" => m = settings(cfg, &MQTT_KEYS),
            _ => {}
        }
    }
    format!("ok b:{b} r:{r} m:{m}")
}

pub fn run_case(line: &str) -> String {
    let rt = tokio::runtime::Builder::new_current_thread().enable_all().build().unwrap();
    let _g = rt.enter();
    reset_thread_local_tables();
    let mut mgr = Manager::new();
    let out: Vec<String> = line.split(';').filter(|s| !s.trim().is_empty()).map(|op| load(&mut mgr, op)).collect();
    drop(mgr);
    out.join(" ")
}

pub fn special(name: &str, _args: &[String]) -> bool {
    match name {
        "confdef-toml" => {
            for line in std::io::stdin().lines() {
                let line = line.unwrap();
                for op in line.split(';').filter(|s| !s.trim().is_empty()) { println!("# ---- {op}\n{}", toml_of(op)); }
            }
            true
        }
        _ => false,
    }
}
