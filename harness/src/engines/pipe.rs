//! pipe: BMP sessions (real BmpState through the facade) and BGP sessions
//! feeding a real RibUnitRunner, queried through Rib::match_prefix.
//! Serves C01 C02 C03 C05 C15. Same case grammar as oracle/eng_pipe.ml:
//!   C k | I k | T k | S k i | U k i e | D k i | R k i af a ps wf ws | E k i f |
//!   B k i | X k | O b | A b af a ps wf ws | Z b | Q af p | M k | MR | MRS
//!   (MR = the RIB unit's own counters, see rib_metrics_vec; MRS = the same read, which the oracle also holds against the
//!   property's reading of the metric descriptions)
//! and, from the wire (UPDATE octets from C04's proved encoder / malformed variants):
//!   RB k i <hex>  the octets as the BGP UPDATE of a Route Monitoring message of peer i on router k
//!   AB b <hex>    the octets as an UPDATE on BGP session b (parsed with SessionConfig::modern())
//!   QX af <len>/<hex|->  query for a prefix given in wire form (af 0 = IPv4, 1 = IPv6)
//! and BMP itself from the wire (frames from the PROVED encoder of Bmp/BmpWire.v, oracle bmpenc, and malformed variants):
//!   WB k <hex>    octets arriving on router k's connection: cut into frames by the real io.rs `bmp_read` (hook
//!                 verif_bmp_read), every frame to the real state machine. One token: the frames' tokens joined by '~';
//!                 `unparsable/<phase>` = routecore refused the frame, `short` = length field below 5, `cut` = the octets
//!                 end inside a message; an accepted Initiation in the initiating phase shows what went to the ingress
//!                 register (:n=<sysName hex>,d=<sysDescr hex>). Peers are named k<k>x<FNV-1a 32 of type, flags,
//!                 distinguisher, address as read, AS, BGP id>.
//! A route's attribute set is printed as the small number of the abstract op that
//! produced exactly these attribute octets, else as n<length>h<FNV-1a 32> of the octets.
//! Glue emulated here (not exercised): the accept loops' find-or-register of
//! the router / BGP session id, and the post-loop cleanup of a lost BMP
//! connection (WithdrawBulk(ids_for_parent)); those are C07/C14's business.
use crate::util::ops;
use bytes::Bytes;
use rotonda::bgp::encode as enc;
use rotonda::ingress::{IngressInfo, Register};
use rotonda::payload::Update;
use rotonda::roto_runtime::types::{PeerRibType, Provenance};
use rotonda::verif::bmp::{Session, StepOutcome};
use rotonda::verif::rib::RibUnitRunner;
use rotonda_store::prelude::multi::RouteStatus;
use rotonda_store::{MatchOptions, MatchType};
use routecore::bgp::message::{SessionConfig, UpdateMessage};
use routecore::bmp::message::PeerType;
use std::collections::BTreeMap;
use std::net::{IpAddr, Ipv4Addr};
use std::str::FromStr;
use std::sync::Arc;

/// peer pool: (type, post, out, dist, addr, asn, bgpid); pairs differ in one field
pub const POOL: [(u8, u8, u8, u8, u8, u32, u8); 10] = [
    (0, 0, 0, 0, 1, 65001, 1),
    (0, 0, 0, 0, 1, 65001, 2), // differs from 0 in BGP id only
    (0, 1, 0, 0, 1, 65001, 1), // post-policy view of 0
    (0, 0, 1, 0, 1, 65001, 1), // Adj-RIB-Out view of 0
    (1, 0, 0, 7, 1, 65001, 1), // RD instance, distinguisher 7
    (0, 0, 0, 0, 2, 65001, 1), // other address
    (0, 0, 0, 0, 1, 65002, 1), // other AS
    (3, 0, 0, 0, 1, 65001, 1), // Loc-RIB instance
    (0, 0, 0, 0, 3, 65003, 3),
    (1, 0, 0, 8, 1, 65001, 1), // RD instance, distinguisher 8
];

pub fn pph(i: usize) -> enc::PerPeerHeader {
    let (t, l, o, d, a, s, b) = POOL[i];
    let pt = match t { 0 => PeerType::GlobalInstance, 1 => PeerType::RdInstance, 2 => PeerType::LocalInstance, _ => PeerType::LocalRibInstance };
    enc::PerPeerHeader {
        peer_type: pt.into(),
        peer_flags: (l << 6) | (o << 4),
        peer_distinguisher: [0, 0, 0, 0, 0, 0, 0, d],
        peer_address: IpAddr::V4(Ipv4Addr::new(192, 0, 2, a)),
        peer_as: inetnum::asn::Asn::from_u32(s),
        peer_bgp_id: [0, 0, 0, b],
    }
}

fn pool_index(p: &rotonda::verif::bmp::PeerIdent) -> Option<usize> {
    (0..POOL.len()).find(|&i| {
        let (t, l, o, d, a, s, b) = POOL[i];
        t == p.peer_type
            && ((l << 6) | (o << 4)) == p.flags
            && p.distinguisher == vec![0, 0, 0, 0, 0, 0, 0, d]
            && p.address == IpAddr::V4(Ipv4Addr::new(192, 0, 2, a))
            && p.asn == s
            && p.bgp_id == [0, 0, 0, b]
    })
}

pub fn prefix_str(fam: u32, p: u32) -> String {
    if fam % 2 == 0 { format!("10.{}.0.0/16", p) } else { format!("2001:db8:{:x}::/48", p) }
}

fn plist(fam: u32, tok: &str) -> Vec<String> {
    if tok == "-" { vec![] } else { tok.split(',').map(|t| prefix_str(fam, t.parse().unwrap())).collect() }
}

pub fn update_bytes(af: u32, a: u32, ps: &str, wf: u32, ws: &str) -> Bytes {
    let anns = plist(af, ps);
    let wds = plist(wf, ws);
    let wd = enc::Prefixes::from_str(&if wds.is_empty() { "none".to_string() } else { wds.join(",") }).unwrap();
    let ann = if anns.is_empty() {
        enc::Announcements::None
    } else {
        let nh = if af % 2 == 0 { "10.0.0.1" } else { "2001:db8::1" };
        enc::Announcements::from_str(&format!("e [{},200] {} none {}", 100 + a, nh, anns.join(","))).unwrap()
    };
    enc::mk_bgp_update(&wd, &ann, &[])
}

pub fn eor_bytes(f: u32) -> Bytes {
    if f == 0 {
        return enc::mk_bgp_update(&enc::Prefixes::default(), &enc::Announcements::None, &[]);
    }
    let (afi, safi): (u8, u8) = match f { 1 => (2, 1), 2 => (1, 2), _ => (2, 2) };
    let mut v = vec![0xffu8; 16];
    v.extend_from_slice(&[0, 29, 2, 0, 0, 0, 6, 0x80, 15, 3, 0, afi, safi]);
    Bytes::from(v)
}

pub fn malformed_update() -> Bytes {
    // an UPDATE whose NLRI claims a /33 IPv4 prefix
    let mut v = vec![0xffu8; 16];
    let body: Vec<u8> = vec![0, 0, 0, 0, 33, 10, 1, 2, 3, 4];
    let len = 19 + body.len() as u16;
    v.extend_from_slice(&len.to_be_bytes());
    v.push(2);
    v.extend_from_slice(&body);
    Bytes::from(v)
}

struct World {
    reg: Arc<Register>,
    unit_id: u32,
    routers: BTreeMap<u32, (u32, Session)>,
    rib: RibUnitRunner,
    bgp: BTreeMap<u32, (u32, u32)>,
    bgp_conns: BTreeMap<u32, u32>,
    ids: Vec<(String, u32)>, // wire identity name -> ingress id (first assignment)
    attr_names: std::collections::HashMap<Vec<u8>, u32>, // attribute octets of the abstract ops -> their number
    rt: tokio::runtime::Runtime,
}

fn fnv(b: &[u8]) -> u32 {
    let mut h: u32 = 0x811c9dc5;
    for x in b {
        h ^= *x as u32;
        h = h.wrapping_mul(16777619);
    }
    h
}

/// the attribute octets every route of this UPDATE stores
fn attr_blob(bytes: &Bytes) -> Option<Vec<u8>> {
    let msg = UpdateMessage::from_octets(bytes.clone(), &SessionConfig::modern()).ok()?;
    let routes = rotonda::verif::bgp::explode_announcements(&msg).ok()?;
    routes.first().map(|r| r.owned_map().clone().into_vec())
}

fn wire_prefix(af: u32, tok: &str) -> Option<inetnum::addr::Prefix> {
    let (l, h) = tok.split_once('/')?;
    let len: u8 = l.parse().ok()?;
    let bs = if h == "-" { vec![] } else { super::c04::unhex(h)? };
    let addr = if af % 2 == 0 {
        let mut o = [0u8; 4];
        if bs.len() > 4 { return None; }
        o[..bs.len()].copy_from_slice(&bs);
        IpAddr::V4(Ipv4Addr::from(o))
    } else {
        let mut o = [0u8; 16];
        if bs.len() > 16 { return None; }
        o[..bs.len()].copy_from_slice(&bs);
        IpAddr::V6(std::net::Ipv6Addr::from(o))
    };
    inetnum::addr::Prefix::new(addr, len).ok()
}

impl World {
    fn note(&mut self, w: String, id: u32) {
        if !self.ids.iter().any(|(x, _)| *x == w) { self.ids.push((w, id)); }
    }
    fn group(&self, id: u32) -> String {
        let mut ws: Vec<&str> = self.ids.iter().filter(|(_, i)| *i == id).map(|(w, _)| w.as_str()).collect();
        ws.sort();
        if ws.is_empty() { format!("?{id}") } else { ws.join("+") }
    }
    fn apply(&mut self, u: Update) {
        let rib = &self.rib;
        self.rt.block_on(async { rib.verif_process_update(u).await }).unwrap();
    }
    fn name_attrs(&mut self, bytes: &Bytes, a: u32) {
        if let Some(blob) = attr_blob(bytes) { self.attr_names.entry(blob).or_insert(a); }
    }
    fn attr_tok(&self, meta: &rotonda::payload::RotondaPaMap) -> String {
        let blob = meta.0.clone().into_vec();
        match self.attr_names.get(&blob) {
            Some(a) => a.to_string(),
            None => format!("n{}h{:08x}", blob.len(), fnv(&blob)),
        }
    }
    fn query(&self, pfx: inetnum::addr::Prefix) -> String {
        let mo = MatchOptions { match_type: MatchType::ExactMatch, include_withdrawn: true, include_less_specifics: false, include_more_specifics: false, mui: None };
        let res = self.rib.verif_rib().match_prefix(&pfx, &mo).unwrap();
        let mut es: Vec<String> = vec![];
        for r in res.prefix_meta.iter() {
            let st = if r.status == RouteStatus::Active { "A" } else { "W" };
            let a = self.attr_tok(&r.meta);
            let ws: Vec<String> = self.ids.iter().filter(|(_, i)| *i == r.multi_uniq_id).map(|(x, _)| x.clone()).collect();
            if ws.is_empty() { es.push(format!("?{}={}{}", r.multi_uniq_id, st, a)); }
            for x in ws { es.push(format!("{x}={st}{a}")); }
        }
        es.sort();
        format!("q:{}", es.join(","))
    }
    fn show_update(&self, u: &Update) -> String {
        match u {
            Update::Bulk(ps) => {
                let mut na = 0; let mut nw = 0; let mut ids: Vec<u32> = vec![];
                for p in ps.iter() {
                    let (st, id) = match &p.context {
                        rotonda::roto_runtime::types::RouteContext::Fresh(c) => (c.status, c.provenance().ingress_id),
                        rotonda::roto_runtime::types::RouteContext::Mrt(c) => (c.status, c.provenance().ingress_id),
                        _ => (RouteStatus::Active, u32::MAX),
                    };
                    if st == RouteStatus::Active { na += 1 } else { nw += 1 }
                    if !ids.contains(&id) { ids.push(id) }
                }
                let g: Vec<String> = ids.iter().map(|i| self.group(*i)).collect();
                format!("u:{}a{}w:{}", na, nw, g.join("|"))
            }
            Update::Single(_) => "u:single".into(),
            Update::Withdraw(id, _) => format!("w:{}", self.group(*id)),
            Update::WithdrawBulk(ids) => {
                let mut g: Vec<String> = ids.iter().map(|i| self.group(*i)).collect();
                g.sort(); g.dedup();
                format!("W:[{}]", g.join(","))
            }
            _ => "other-update".into(),
        }
    }
}

#[allow(dead_code)]
fn first_hop(meta: &rotonda::payload::RotondaPaMap) -> u32 {
    first_hop_value(&serde_json::to_value(meta).unwrap_or(serde_json::Value::Null))
}

/// the same on the JSON rendering of a route's attributes (what the RIB HTTP API answers)
pub fn first_hop_value(v: &serde_json::Value) -> u32 {
    // [{"origin":..},{"asPath":["AS101","AS200"]},...]
    if let Some(arr) = v.as_array() {
        for item in arr {
            if let Some(p) = item.get("asPath").and_then(|x| x.as_array()) {
                if let Some(h) = p.first() {
                    let s = h.as_str().map(|s| s.to_string()).unwrap_or_else(|| h.to_string());
                    let digits: String = s.chars().filter(|c| c.is_ascii_digit()).collect();
                    return digits.parse::<u32>().unwrap_or(0).saturating_sub(100);
                }
            }
        }
    }
    // an AS_PATH the JSON serialiser could not re-parse is shown raw: [flags, 2, [seg type, count, asn bytes..]]
    if let Some(arr) = v.as_array() {
        for item in arr {
            if let Some(inv) = item.get("invalid").and_then(|x| x.as_array()) {
                if inv.len() == 3 && inv[1].as_u64() == Some(2) {
                    if let Some(b) = inv[2].as_array() {
                        let b: Vec<u32> = b.iter().map(|x| x.as_u64().unwrap_or(0) as u32).collect();
                        if b.len() >= 6 {
                            return ((b[2] << 24) | (b[3] << 16) | (b[4] << 8) | b[5]).saturating_sub(100);
                        }
                    }
                }
            }
        }
    }
    if std::env::var("VH_DEBUG").is_ok() { eprintln!("PAMAP {}", v); }
    9999
}

/// A Peer Down Notification with the given reason octet (RFC 7854 4.9: 1..5; 0 reserved; 6 = RFC 9069 Loc-RIB "local system
/// closed, TLV data follows"; anything else unassigned) and the data that reason calls for: 1 / 3 carry a BGP NOTIFICATION PDU,
/// 2 a two-octet FSM event code, 6 one TLV, the others nothing. The test encoder only writes reason 5; the state machine
/// (`peer_down` in state_machine/machine.rs) never reads the reason, so the model's `MPeerDown` has no such field: whatever
/// routecore's parser lets through must take the peer down.
pub fn peer_down_msg(pph: &enc::PerPeerHeader, reason: Option<u32>) -> Bytes {
    let base = enc::mk_peer_down_notification_msg(pph);
    let Some(r) = reason else { return base };
    let mut v = base.to_vec();
    let last = v.len() - 1;
    v[last] = r as u8;
    match r {
        1 | 3 => { v.extend_from_slice(&[0xff; 16]); v.extend_from_slice(&[0, 21, 3, 6, 2]); }
        2 => v.extend_from_slice(&[0, 1]),
        6 => v.extend_from_slice(&[0, 3, 0, 4, b'v', b'r', b'f', b'1']),
        _ => {}
    }
    let len = v.len() as u32;
    v[1..5].copy_from_slice(&len.to_be_bytes());
    Bytes::from(v)
}

/// the name of a per-peer header that came in a BMP frame: FNV-1a of what routecore's PartialEq compares
fn wire_name(k: u32, p: &rotonda::verif::bmp::PeerIdent) -> String {
    let mut o = vec![p.peer_type, p.flags];
    o.extend_from_slice(&p.distinguisher);
    match p.address {
        IpAddr::V4(a) => o.extend_from_slice(&a.octets()),
        IpAddr::V6(a) => o.extend_from_slice(&a.octets()),
    }
    o.extend_from_slice(&p.asn.to_be_bytes());
    o.extend_from_slice(&p.bgp_id);
    format!("k{k}x{:08x}", fnv(&o))
}

/// an information string as the register holds it; `from_utf8_lossy` leaves ASCII alone, anything else is not compared
fn hexs(b: &[u8]) -> String {
    if b.iter().any(|x| *x >= 128) { "nonascii".into() } else { b.iter().map(|x| format!("{x:02x}")).collect() }
}

/// op WB: the octets through the real bmp_read, frame after frame, into the session of router k
fn wire_octets(w: &mut World, k: u32, octets: &[u8]) -> String {
    let mut toks: Vec<String> = vec![];
    let mut rx: &[u8] = octets;
    loop {
        if rx.is_empty() { break; }
        let left = rx.len();
        // bmp_read allocates the declared length before it reads: a declaration above the cap that the octets cannot
        // honour anyway is not executed (it would end in UnexpectedEof after the allocation)
        if rx.len() >= 5 {
            let len = u32::from_be_bytes([rx[1], rx[2], rx[3], rx[4]]) as usize;
            if len > super::bstream::CAP && len > rx.len() { toks.push("cut".into()); break; }
        }
        let res = w.rt.block_on(rotonda::verif::bmp_stream::verif_bmp_read(rx));
        match res {
            Err((rest, e)) => match e.kind() {
                std::io::ErrorKind::UnexpectedEof => { toks.push("cut".into()); break; }
                std::io::ErrorKind::InvalidData => { toks.push("short".into()); break; }
                std::io::ErrorKind::Other => {
                    // the parser refused the frame: not fatal, the read loop goes on with the next one
                    assert!(rest.len() < left, "bmp_read made no progress");
                    let (_, s) = w.routers.get(&k).unwrap();
                    toks.push(format!("unparsable/{}", s.phase()));
                    rx = rest;
                }
                other => { toks.push(format!("ioerr:{other:?}")); break; }
            },
            Ok((rest, frame)) => {
                rx = rest;
                let is_init = frame.len() > 5 && frame[5] == 4;
                let (res, before, phase, peers, rid) = {
                    let (rid, s) = w.routers.get_mut(&k).unwrap();
                    let before = s.phase();
                    let r = s.step(frame);
                    (r, before, s.phase(), s.peers(), *rid)
                };
                for (ident, id) in peers { let name = wire_name(k, &ident); w.note(name, id); }
                let mut tok = match res {
                    StepOutcome::Unparsable => "unparsable".to_string(),
                    StepOutcome::Invalid(_) => "i".into(),
                    StepOutcome::Other => "o".into(),
                    StepOutcome::Transition => "t".into(),
                    StepOutcome::Aborted => "aborted".into(),
                    StepOutcome::Update(u) => { let t = w.show_update(&u); w.apply(u); t }
                };
                tok = format!("{tok}/{phase}");
                if is_init && before == 0 && phase == 1 {
                    let info = w.reg.get(rid);
                    let name = info.as_ref().and_then(|i| i.name.clone()).unwrap_or_else(|| "<none>".into());
                    let desc = info.as_ref().and_then(|i| i.desc.clone()).unwrap_or_else(|| "<none>".into());
                    tok = format!("{tok}:n={},d={}", hexs(name.as_bytes()), hexs(desc.as_bytes()));
                }
                toks.push(tok);
            }
        }
    }
    if toks.is_empty() { "nothing".into() } else { toks.join("~") }
}

pub fn run_case(line: &str) -> String {
    let rt = tokio::runtime::Builder::new_current_thread().enable_all().build().unwrap();
    let reg = Arc::new(rotonda::verif::ingress::new_register());
    let unit_id = reg.verif_register();
    let (rib, _agent) = { let _g = rt.enter(); RibUnitRunner::verif_new(reg.clone()) };
    let mut w = World { reg, unit_id, routers: BTreeMap::new(), rib, bgp: BTreeMap::new(), bgp_conns: BTreeMap::new(), ids: vec![], attr_names: Default::default(), rt };
    let mut out: Vec<String> = vec![];
    for op in ops(line) {
        let n = |i: usize| op[i].parse::<u32>().unwrap();
        match op[0] {
            "C" => {
                let k = n(1);
                let q = IngressInfo::new().with_parent(w.unit_id).with_remote_addr(IpAddr::V4(Ipv4Addr::new(198, 51, 100, k as u8)));
                let rid = match w.reg.find_existing_bmp_router(&q) {
                    Some((id, _)) => id,
                    None => { let id = w.reg.verif_register(); w.reg.verif_update_info(id, q); id }
                };
                let s = Session::new(rid, w.reg.clone());
                w.routers.insert(k, (rid, s));
                out.push("-".into());
            }
            "I" | "T" | "S" | "U" | "D" | "R" | "E" | "B" | "RB" => {
                let k = n(1);
                if !w.routers.contains_key(&k) { out.push("-".into()); continue; }
                let bytes = match op[0] {
                    "I" => enc::mk_initiation_msg("r", "d"),
                    "T" => enc::mk_termination_msg(),
                    "S" => enc::mk_statistics_report_msg(&pph(n(2) as usize)),
                    "U" => enc::mk_peer_up_notification_msg(&pph(n(2) as usize), "10.0.0.1".parse().unwrap(), 11019, 4567, 111, 222, 0, 0, vec![], n(3) == 1),
                    "D" => peer_down_msg(&pph(n(2) as usize), op.get(3).map(|r| r.parse().unwrap())),
                    "R" => {
                        let ub = update_bytes(n(3), n(4), op[5], n(6), op[7]);
                        w.name_attrs(&ub, n(4));
                        enc::mk_raw_route_monitoring_msg(&pph(n(2) as usize), ub)
                    }
                    "RB" => {
                        let ub = super::c04::unhex(op[3]).expect("bad hex");
                        assert!(super::c04::framed(&ub), "RB: the octets are not one framed BGP message");
                        enc::mk_raw_route_monitoring_msg(&pph(n(2) as usize), Bytes::from(ub))
                    }
                    "E" => enc::mk_raw_route_monitoring_msg(&pph(n(2) as usize), eor_bytes(n(3))),
                    _ => enc::mk_raw_route_monitoring_msg(&pph(n(2) as usize), malformed_update()),
                };
                let (res, phase, peers) = {
                    let (_, s) = w.routers.get_mut(&k).unwrap();
                    let r = s.step(bytes);
                    (r, s.phase(), s.peers())
                };
                if op[0] == "U" {
                    for (ident, id) in peers {
                        if let Some(i) = pool_index(&ident) { w.note(format!("k{k}p{i}"), id); }
                    }
                }
                let tok = match res {
                    StepOutcome::Unparsable => "unparsable".to_string(),
                    StepOutcome::Invalid(_) => "i".into(),
                    StepOutcome::Other => "o".into(),
                    StepOutcome::Transition => "t".into(),
                    StepOutcome::Aborted => "aborted".into(),
                    StepOutcome::Update(u) => { let t = w.show_update(&u); w.apply(u); t }
                };
                out.push(format!("{tok}/{phase}"));
            }
            "WB" => {
                let k = n(1);
                if !w.routers.contains_key(&k) { out.push("-".into()); continue; }
                let octets = super::c04::unhex(op[2]).expect("bad hex");
                let t = wire_octets(&mut w, k, &octets);
                out.push(t);
            }
            "X" => {
                let k = n(1);
                match w.routers.remove(&k) {
                    None => out.push("-".into()),
                    Some((rid, _s)) => {
                        let ids = w.reg.ids_for_parent(rid);
                        let u = Update::WithdrawBulk(ids.into());
                        let t = w.show_update(&u);
                        w.apply(u);
                        out.push(t);
                    }
                }
            }
            "O" => {
                let b = n(1);
                let id = w.reg.verif_register();
                let c = match w.bgp_conns.get(&b) { Some(c) => c + 1, None => 0 };
                w.bgp.insert(b, (id, c));
                w.bgp_conns.insert(b, c);
                w.note(format!("b{b}c{c}"), id);
                out.push("-".into());
            }
            "A" => {
                let b = n(1);
                match w.bgp.get(&b).copied() {
                    None => out.push("-".into()),
                    Some((id, _)) => {
                        let bytes = update_bytes(n(2), n(3), op[4], n(5), op[6]);
                        w.name_attrs(&bytes, n(3));
                        let msg = UpdateMessage::from_octets(bytes, &SessionConfig::modern()).unwrap();
                        let ip = IpAddr::V4(Ipv4Addr::new(203, 0, 113, b as u8));
                        let prov = Provenance::for_bmp(id, ip, inetnum::asn::Asn::from_u32(64500 + b), ip, [0; 9], PeerRibType::InPre);
                        let u = w.rt.block_on(rotonda::verif::bgp::verif_process_update(msg, prov));
                        match u {
                            Ok(u) => { let t = w.show_update(&u); w.apply(u); out.push(t) }
                            Err(_) => out.push("bgp-error".into()),
                        }
                    }
                }
            }
            "AB" => {
                let b = n(1);
                match w.bgp.get(&b).copied() {
                    None => out.push("-".into()),
                    Some((id, _)) => {
                        let ub = super::c04::unhex(op[2]).expect("bad hex");
                        assert!(super::c04::framed(&ub), "AB: the octets are not one framed BGP message");
                        // a message the session cannot parse never reaches process_update; what the session
                        // does about it (NOTIFICATION, reset) is not this engine's business
                        match UpdateMessage::from_octets(Bytes::from(ub), &SessionConfig::modern()) {
                            Err(_) => out.push("-".into()),
                            Ok(msg) => {
                                let ip = IpAddr::V4(Ipv4Addr::new(203, 0, 113, b as u8));
                                let prov = Provenance::for_bmp(id, ip, inetnum::asn::Asn::from_u32(64500 + b), ip, [0; 9], PeerRibType::InPre);
                                match w.rt.block_on(rotonda::verif::bgp::verif_process_update(msg, prov)) {
                                    Ok(u) => { let t = w.show_update(&u); w.apply(u); out.push(t) }
                                    // router_handler.rs: logged, nothing is sent on
                                    Err(_) => out.push("-".into()),
                                }
                            }
                        }
                    }
                }
            }
            "Z" => {
                let b = n(1);
                match w.bgp.remove(&b) {
                    None => out.push("-".into()),
                    Some((id, _)) => { let u = Update::Withdraw(id, None); let t = w.show_update(&u); w.apply(u); out.push(t) }
                }
            }
            "Q" => {
                let (af, p) = (n(1), n(2));
                let pfx = inetnum::addr::Prefix::from_str(&prefix_str(af, p)).unwrap();
                out.push(w.query(pfx));
            }
            "QX" => {
                let pfx = wire_prefix(n(1), op[2]).expect("QX: not a prefix");
                out.push(w.query(pfx));
            }
            "M" => {
                let k = n(1);
                match w.routers.get(&k) {
                    None => out.push("-".into()),
                    Some((rid, s)) => out.push(format!("m:{}", crate::engines::pipe::metrics_vec(&s.metrics_prometheus(), *rid))),
                }
            }
            // the RIB unit's own metrics (src/units/rib_unit/metrics.rs) as /metrics renders them, through the independent reader
            "MR" | "MRS" => {
                if std::env::var("VH_DEBUG").is_ok() { eprintln!("{}", w.rib.verif_metrics_prometheus()); }
                out.push(rib_metrics_vec(&w.rib.verif_metrics_prometheus()));
            }
            _ => panic!("bad op {:?}", op),
        }
    }
    out.join(" ")
}

/// r:unique_prefixes,items,insert_retries,insert_hard_failures,routes_announced,modified_route_announcements,routes_withdrawn,
/// route_withdrawals_without_announcements - read from the rendered text by promtext; `routes_announced` is shown as the
/// two's-complement reading of the 64-bit value (the code decrements with a wrapping fetch_sub). A series that is missing is `?`.
pub fn rib_metrics_vec(text: &str) -> String {
    let p = match super::promtext::parse(text) {
        Ok(p) => p,
        Err(e) => return format!("r:unreadable:{}", e.replace(' ', "_")),
    };
    let get = |name: &str| -> String {
        match p.get(&format!("rotonda_rib_unit_{name}_total"), &[("component", "verif-rib")]) {
            Some(v) => v.to_string(),
            None => "?".to_string(),
        }
    };
    let announced = match get("num_routes_announced").parse::<u64>() { Ok(v) => (v as i64).to_string(), Err(_) => "?".to_string() };
    [
        get("num_unique_prefixes"),
        get("num_items"),
        get("num_insert_retries"),
        get("num_insert_hard_failures"),
        announced,
        get("num_modified_route_announcements"),
        get("num_routes_withdrawn"),
        get("num_route_withdrawals_without_announcements"),
    ].join(",").replacen("", "r:", 1)
}

/// state,prefixes,unknown_peer,unprocessable,announcements,withdrawals,up,eor_capable,dumping
pub fn metrics_vec(text: &str, rid: u32) -> String {
    metrics_vec_label(text, &rid.to_string())
}

/// the same for a router whose series carry the label value `router` (router_id_template other than the default)
pub fn metrics_vec_label(text: &str, router: &str) -> String {
    let label = format!("router=\"{router}\"");
    let get = |name: &str| -> String {
        let full = format!("rotonda_{name}_total{{");
        for l in text.lines() {
            if l.starts_with(&full) && l.contains(&label) {
                return l.rsplit(' ').next().unwrap_or("?").to_string();
            }
        }
        // the metric set of a router is created at its first event: no series yet = nothing counted yet
        "0".to_string()
    };
    // the state gauge is a Text metric, which the Prometheus format does not render
    let state = "x".to_string();
    [
        state,
        get("bmp_state_num_received_prefixes"),
        get("bmp_state_num_bmp_route_monitoring_msgs_with_unknown_peer"),
        get("bmp_state_num_unprocessable_bmp_messages"),
        get("bmp_state_num_announcements"),
        get("bmp_state_num_withdrawals"),
        get("bmp_state_num_up_peers"),
        get("bmp_state_num_up_peers_eor_capable"),
        get("bmp_state_num_up_peers_with_pending_eors"),
    ].join(",")
}

pub fn special(name: &str, args: &[String]) -> bool {
    if name == "pipe-metrics-raw" {
        // debugging aid: print the raw exposition after a fixed little history
        let _ = args;
        let rt = tokio::runtime::Builder::new_current_thread().enable_all().build().unwrap();
        let _g = rt.enter();
        let reg = Arc::new(rotonda::verif::ingress::new_register());
        let mut s = Session::new(7, reg);
        s.step(enc::mk_initiation_msg("r", "d"));
        s.step(enc::mk_peer_up_notification_msg(&pph(0), "10.0.0.1".parse().unwrap(), 11019, 4567, 111, 222, 0, 0, vec![], true));
        println!("{}", s.metrics_prometheus());
        return true;
    }
    false
}
