//! mrtrx: hostile MRT files (C06, MRT reader). As engine c16 the harness WRITES real files from
//! the abstract record list of a case (c16's encoders), starts the real mrt-file-in unit (HTTP
//! queue endpoint -> queue -> `MrtInRunner::run` -> `process_file` in a task of its own -> gate),
//! links a real RIB unit behind the gate and prints what left the gate and what the RIB answers.
//! On top of c16's grammar a file can be damaged before it is written:
//!
//!   HT r k       the (plain) octets of the current file are cut k octets into record r (records counted from 0;
//!                k = 0: on the record boundary)
//!   HM r f v     field f of record r is overwritten with v: len | typ | sub (the MRT common header: length, type,
//!                subtype), alen (the attribute length of the first entry of a RIB record)
//!   HF off x     the octet at offset off (modulo the length of the plain file) is xor'ed with x
//!   HA hex       octets appended: behind the compressed stream of a gzip / bzip2 file, behind the records of a plain one
//!   HC n         the compressed stream loses its last n octets (plain files: the file does)
//!   HX n x       the octet n+1 from the end of the compressed stream is xor'ed with x
//!   HR hex       the file holds these octets and nothing else (compressed as the file says unless HC/HX/HA follow)
//!   HK n         of the batch that holds this file only the first n updates are printed, then `~` (what a damaged
//!                record and the octets behind it are taken for is not predicted)
//!
//! Every batch (`W`, `Q`, end of case) is awaited for at most 10 s: a file task that does not come back shows as
//! `]STUCK` and ends the case. Observation as c16: per batch `[` <updates> `]` (`]<answers>` unless every enqueuer got
//! 200), per Q `q:<entries>`; last token `alive:<0|1>`: the unit's queue still accepts and answers (an empty file is
//! enqueued at the very end).
use crate::engines::c16::{
    bgp4mp_message, bgp4mp_state, bgp_other, bgp_update, first_hop, futures_join, mrt_record, pit_record, plist, prefix_str, rib_record,
    scratch_root, show_update, Namer,
};
use crate::engines::c04::unhex;
use crate::util::ops;
use rotonda::comms::Gate;
use rotonda::payload::Update;
use rotonda::verif::mrt::hyper::{Body, Request};
use rotonda::verif::mrt::ProcessRequest;
use rotonda::verif::mrt_import::{bzip2, flate2, Capture, MrtFileIn};
use rotonda::verif::rib::RibUnitRunner;
use rotonda_store::prelude::multi::RouteStatus;
use rotonda_store::{MatchOptions, MatchType};
use std::io::Write;
use std::path::PathBuf;
use std::str::FromStr;
use std::sync::Arc;
use std::time::Duration;

#[derive(Default)]
struct FileSpec {
    comp: char,
    recs: Vec<Vec<u8>>,
    raw: Option<Vec<u8>>,               // HR
    plain_edits: Vec<PlainEdit>,
    comp_edits: Vec<CompEdit>,
    keep: Option<usize>,                // HK
    bad: Option<char>,                  // c16's X
}
enum PlainEdit { Cut(usize, usize), Field(usize, String, u64), Flip(usize, u8), Append(Vec<u8>) }
enum CompEdit { Drop(usize), Xor(usize, u8), Append(Vec<u8>) }

fn plain_bytes(f: &FileSpec) -> Vec<u8> {
    if let Some(r) = &f.raw { return r.clone(); }
    let mut recs = f.recs.clone();
    let mut cut: Option<(usize, usize)> = None;
    let mut flips: Vec<(usize, u8)> = vec![];
    let mut tail: Vec<u8> = vec![];
    for e in &f.plain_edits {
        match e {
            PlainEdit::Field(r, field, v) => {
                if let Some(rec) = recs.get_mut(*r) {
                    match field.as_str() {
                        "typ" => rec[4..6].copy_from_slice(&(*v as u16).to_be_bytes()),
                        "sub" => rec[6..8].copy_from_slice(&(*v as u16).to_be_bytes()),
                        "len" => rec[8..12].copy_from_slice(&(*v as u32).to_be_bytes()),
                        "alen" => {
                            // RIB record: header 12, sequence 4, prefix (1 + ceil(len/8)), entry count 2, entry: index 2, time 4, attribute length 2
                            if rec.len() > 17 {
                                let plen = rec[16] as usize;
                                let off = 12 + 4 + 1 + (plen + 7) / 8 + 2 + 2 + 4;
                                if off + 2 <= rec.len() { rec[off..off + 2].copy_from_slice(&(*v as u16).to_be_bytes()); }
                            }
                        }
                        x => panic!("bad field {x}"),
                    }
                }
            }
            PlainEdit::Cut(r, k) => cut = Some((*r, *k)),
            PlainEdit::Flip(off, x) => flips.push((*off, *x)),
            PlainEdit::Append(b) => tail.extend_from_slice(b),
        }
    }
    let mut out = vec![];
    for (i, rec) in recs.iter().enumerate() {
        if let Some((r, k)) = cut {
            if i == r { out.extend_from_slice(&rec[..(*rec).len().min(k)]); break; }
        }
        out.extend_from_slice(rec);
    }
    out.extend_from_slice(&tail);
    for (off, x) in flips {
        if !out.is_empty() { let n = out.len(); out[off % n] ^= x; }
    }
    out
}

fn write_file(dir: &std::path::Path, k: usize, f: &FileSpec) -> (PathBuf, bool) {
    if let Some(kind) = f.bad {
        return match kind {
            'g' => { let p = dir.join(format!("f{k}.mrt.gz")); std::fs::write(&p, b"this is not gzip data at all").unwrap(); (p, true) }
            'b' => { let p = dir.join(format!("f{k}.mrt.bz2")); std::fs::write(&p, b"this is not bzip2 data at all").unwrap(); (p, true) }
            'd' => { let p = dir.join(format!("f{k}.mrt")); std::fs::create_dir_all(&p).unwrap(); (p, true) }
            _ => (dir.join(format!("f{k}.mrt")), false),
        };
    }
    let bytes = plain_bytes(f);
    let (name, mut data) = match f.comp {
        'g' => {
            let mut e = flate2::write::GzEncoder::new(vec![], flate2::Compression::fast());
            e.write_all(&bytes).unwrap();
            (format!("f{k}.mrt.gz"), e.finish().unwrap())
        }
        'b' => {
            let mut e = bzip2::write::BzEncoder::new(vec![], bzip2::Compression::fast());
            e.write_all(&bytes).unwrap();
            (format!("f{k}.mrt.bz2"), e.finish().unwrap())
        }
        _ => (format!("f{k}.mrt"), bytes),
    };
    for e in &f.comp_edits {
        match e {
            CompEdit::Drop(n) => { let l = data.len().saturating_sub(*n); data.truncate(l); }
            CompEdit::Xor(n, x) => { if *n < data.len() { let i = data.len() - 1 - *n; data[i] ^= *x; } }
            CompEdit::Append(b) => data.extend_from_slice(b),
        }
    }
    let p = dir.join(name);
    std::fs::write(&p, data).unwrap();
    (p, true)
}

pub fn run_case(line: &str) -> String {
    let root = scratch_root().with_extension("rx");
    let _ = std::fs::remove_dir_all(&root);
    std::fs::create_dir_all(&root).unwrap();
    let root = root.canonicalize().unwrap();
    let res = std::panic::catch_unwind(std::panic::AssertUnwindSafe(|| run_in(line, &root)));
    let _ = std::fs::remove_dir_all(&root);
    match res { Ok(s) => s, Err(e) => std::panic::resume_unwind(e) }
}

fn run_in(line: &str, root: &std::path::Path) -> String {
    let rt = tokio::runtime::Builder::new_multi_thread().worker_threads(2).enable_all().build().unwrap();
    let reg = Arc::new(rotonda::verif::ingress::new_register());
    let (rib, _rib_agent) = { let _g = rt.enter(); RibUnitRunner::verif_new(reg.clone()) };
    let rib = Arc::new(rib);
    let (gate, mut agent) = Gate::new(8);
    let mut link = agent.create_link();
    let rib2 = rib.clone();
    let capture = Capture::new(move |u: Update| {
        let rib = rib2.clone();
        async move { let _ = rib.verif_process_update(u).await; }
    });
    link.set_direct_update_target(capture.clone());
    let cfg = MrtFileIn::verif_config(vec![], Some(root.to_path_buf()));
    let (unit, run_fut) = rt.block_on(cfg.verif_start("mrt-in", gate, reg.clone()));
    let runner = rt.spawn(run_fut);
    rt.block_on(async { link.connect(false).await }).expect("link connects");
    let nm = Namer { reg: reg.clone(), parent: unit.parent_id };

    let mut out: Vec<String> = vec![];
    let mut pending: Vec<FileSpec> = vec![];
    let mut cur: Option<FileSpec> = None;
    let mut nfiles = 0usize;
    let mut seq = 0u32;
    let mut stuck = false;

    fn file(cur: &mut Option<FileSpec>) -> &mut FileSpec {
        if cur.is_none() { *cur = Some(FileSpec { comp: 'p', ..Default::default() }); }
        cur.as_mut().unwrap()
    }
    fn close(cur: &mut Option<FileSpec>, pending: &mut Vec<FileSpec>) {
        if let Some(f) = cur.take() { pending.push(f); }
    }
    // write the files, enqueue all of them in order at once, wait for every answer (at most 10 s)
    let mut barrier = |pending: &mut Vec<FileSpec>, out: &mut Vec<String>, nfiles: &mut usize, stuck: &mut bool| {
        if *stuck { pending.clear(); return; }
        let mut futs: Vec<std::pin::Pin<Box<dyn std::future::Future<Output = String> + Send>>> = vec![];
        let mut keep: Option<usize> = None;
        for f in pending.drain(..) {
            if let Some(k) = f.keep { keep = Some(k); }
            let (path, exists) = write_file(root, *nfiles, &f);
            *nfiles += 1;
            if exists {
                let name = path.file_name().unwrap().to_string_lossy().to_string();
                let p = unit.processor.clone();
                futs.push(Box::pin(async move {
                    let req = Request::builder().method("GET").uri(format!("/mrt/mrt-in/queue?file={name}")).body(Body::empty()).unwrap();
                    match p.process_request(&req).await {
                        Some(r) => format!("{}", r.status().as_u16()),
                        None => "none".into(),
                    }
                }));
            } else {
                let tx = unit.queue_tx.clone();
                futs.push(Box::pin(async move {
                    let (otx, orx) = tokio::sync::oneshot::channel();
                    if tx.send((path, Some(otx))).await.is_err() { return "closed".into(); }
                    match orx.await { Ok(_) => "200".into(), Err(_) => "dropped".into() }
                }));
            }
        }
        let answers: Option<Vec<String>> = rt.block_on(async {
            tokio::time::timeout(Duration::from_secs(10), futures_join(futs)).await.ok()
        });
        out.push("[".into());
        let ups = capture.take();
        match keep {
            Some(k) => {
                for u in ups.iter().take(k) { out.push(show_update(&nm, u)); }
                out.push("~".into());
            }
            None => for u in ups.iter() { out.push(show_update(&nm, u)); },
        }
        match answers {
            None => { out.push("]STUCK".into()); *stuck = true; }
            Some(a) => if a.iter().all(|x| x == "200") { out.push("]".into()) } else { out.push(format!("]{}", a.join("/"))) },
        }
    };

    for op in ops(line) {
        let n = |i: usize| op[i].parse::<u32>().unwrap();
        let rec = |bytes: Vec<u8>, cur: &mut Option<FileSpec>| {
            if cur.is_none() { *cur = Some(FileSpec { comp: 'p', ..Default::default() }); }
            cur.as_mut().unwrap().recs.push(bytes);
        };
        match op[0] {
            "F" => { close(&mut cur, &mut pending); cur = Some(FileSpec { comp: op[1].chars().next().unwrap(), ..Default::default() }); }
            "X" => { close(&mut cur, &mut pending); pending.push(FileSpec { bad: Some(op[1].chars().next().unwrap()), ..Default::default() }); }
            "I" => rec(pit_record(&plist(op[1]).iter().map(|x| *x as usize).collect::<Vec<_>>()), &mut cur),
            "T" => {
                let es: Vec<(u16, u32)> = if op[3] == "-" { vec![] } else {
                    op[3].split(',').map(|e| { let (i, a) = e.split_once(':').unwrap(); (i.parse().unwrap(), a.parse().unwrap()) }).collect() };
                seq += 1;
                rec(rib_record(n(1), n(2), &es, seq), &mut cur)
            }
            "M" => rec(bgp4mp_message(n(1), n(2) as usize, &bgp_update(n(3), n(4), &plist(op[5]), n(6), &plist(op[7]))), &mut cur),
            "K" => rec(bgp4mp_message(n(1), n(2) as usize, &bgp_other(op[3])), &mut cur),
            "S" => rec(bgp4mp_state(n(1), n(2) as usize, n(3) as u16, n(4) as u16), &mut cur),
            "N" => rec(mrt_record(13, n(1) as u16, false, &[]), &mut cur),
            "HT" => file(&mut cur).plain_edits.push(PlainEdit::Cut(n(1) as usize, n(2) as usize)),
            "HM" => file(&mut cur).plain_edits.push(PlainEdit::Field(n(1) as usize, op[2].to_string(), op[3].parse().unwrap())),
            "HF" => file(&mut cur).plain_edits.push(PlainEdit::Flip(n(1) as usize, n(2) as u8)),
            "HA" => {
                let b = unhex(op[1]).expect("hex");
                let f = file(&mut cur);
                if f.comp == 'p' { f.plain_edits.push(PlainEdit::Append(b)) } else { f.comp_edits.push(CompEdit::Append(b)) }
            }
            "HC" => file(&mut cur).comp_edits.push(CompEdit::Drop(n(1) as usize)),
            "HX" => file(&mut cur).comp_edits.push(CompEdit::Xor(n(1) as usize, n(2) as u8)),
            "HR" => file(&mut cur).raw = Some(if op[1] == "-" { vec![] } else { unhex(op[1]).expect("hex") }),
            "HK" => file(&mut cur).keep = Some(n(1) as usize),
            "W" => { close(&mut cur, &mut pending); barrier(&mut pending, &mut out, &mut nfiles, &mut stuck); }
            "Q" => {
                close(&mut cur, &mut pending);
                barrier(&mut pending, &mut out, &mut nfiles, &mut stuck);
                let (af, p) = (n(1), n(2));
                let pfx = inetnum::addr::Prefix::from_str(&prefix_str(af, p)).unwrap();
                let mo = MatchOptions { match_type: MatchType::ExactMatch, include_withdrawn: true, include_less_specifics: false, include_more_specifics: false, mui: None };
                let res = rib.verif_rib().match_prefix(&pfx, &mo).unwrap();
                let mut es: Vec<String> = res.prefix_meta.iter().map(|r| {
                    format!("{}={}{}", nm.wire(r.multi_uniq_id), if r.status == RouteStatus::Active { "A" } else { "W" }, first_hop(&r.meta))
                }).collect();
                es.sort();
                out.push(format!("q:{}", es.join(",")));
            }
            _ => panic!("bad op {:?}", op),
        }
    }
    close(&mut cur, &mut pending);
    if !pending.is_empty() { barrier(&mut pending, &mut out, &mut nfiles, &mut stuck); }
    // liveness of the queue itself: one more (empty) file is enqueued and must be answered
    let alive = if stuck { false } else {
        let p = root.join("last.mrt");
        std::fs::write(&p, b"").unwrap();
        let tx = unit.queue_tx.clone();
        rt.block_on(async {
            let (otx, orx) = tokio::sync::oneshot::channel();
            if tx.send((p, Some(otx))).await.is_err() { return false; }
            matches!(tokio::time::timeout(Duration::from_secs(10), orx).await, Ok(Ok(_)))
        })
    };
    out.push(format!("alive:{}", alive as u8));
    rt.block_on(async { agent.terminate().await; let _ = tokio::time::timeout(Duration::from_secs(2), runner).await; });
    {
        let _g = rt.enter();
        drop(link);
        drop(unit);
        drop(capture);
        drop(rib);
        drop(_rib_agent);
    }
    rt.shutdown_background();
    out.join(" ")
}

/// mrtrx-layout: for each case line on stdin the sizes of the records of each file, `|`-separated per file
pub fn special(name: &str, _args: &[String]) -> bool {
    if name != "mrtrx-layout" { return false; }
    use std::io::BufRead;
    for line in std::io::stdin().lock().lines() {
        let line = line.unwrap();
        let mut files: Vec<Vec<usize>> = vec![];
        let mut seq = 0u32;
        for op in ops(&line) {
            let n = |i: usize| op[i].parse::<u32>().unwrap();
            let mut push = |len: usize, files: &mut Vec<Vec<usize>>| { if files.is_empty() { files.push(vec![]); } files.last_mut().unwrap().push(len); };
            match op[0] {
                "F" | "X" => files.push(vec![]),
                "I" => push(pit_record(&plist(op[1]).iter().map(|x| *x as usize).collect::<Vec<_>>()).len(), &mut files),
                "T" => {
                    let es: Vec<(u16, u32)> = if op[3] == "-" { vec![] } else {
                        op[3].split(',').map(|e| { let (i, a) = e.split_once(':').unwrap(); (i.parse().unwrap(), a.parse().unwrap()) }).collect() };
                    seq += 1;
                    push(rib_record(n(1), n(2), &es, seq).len(), &mut files)
                }
                "M" => push(bgp4mp_message(n(1), n(2) as usize, &bgp_update(n(3), n(4), &plist(op[5]), n(6), &plist(op[7]))).len(), &mut files),
                "K" => push(bgp4mp_message(n(1), n(2) as usize, &bgp_other(op[3])).len(), &mut files),
                "S" => push(bgp4mp_state(n(1), n(2) as usize, n(3) as u16, n(4) as u16).len(), &mut files),
                "N" => push(mrt_record(13, n(1) as u16, false, &[]).len(), &mut files),
                _ => {}
            }
        }
        println!("{}", files.iter().map(|f| f.iter().map(|x| x.to_string()).collect::<Vec<_>>().join(",")).collect::<Vec<_>>().join("|"));
    }
    true
}
