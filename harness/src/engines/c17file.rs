//! C17, file-out: runs the real `FileRunner::run` loop (gate -> link -> file)
//! over the updates of a case and reports the physical lines of the output
//! file after termination, each parsed back (JSON / CSV / text) to a canonical
//! record token. Same case grammar as oracle/eng_c17file.ml (see there).
use crate::util::{ops, opt_tok};
use rotonda::comms::Gate;
use rotonda::ingress::{IngressId, IngressInfo, Register};
use rotonda::manager::{Component, Coordinator, TargetCommand};
use rotonda::payload::{Payload, RotondaPaMap, RotondaRoute, Update, UpstreamStatus};
use rotonda::roto_runtime::types::{LogEntry, OutputStreamMessage, RouteContext};
use rotonda::verif::targets::{chrono, csv, file::FileRunner, smallvec::SmallVec, uuid};
use routecore::bgp::message::PduParseInfo;
use routecore::bgp::nlri::afisafi::{
    Ipv4MulticastNlri, Ipv4UnicastNlri, Ipv6MulticastNlri, Ipv6UnicastNlri,
};
use routecore::bgp::path_attributes::OwnedPathAttributes;
use routecore::bgp::types::AfiSafiType;
use std::net::{IpAddr, Ipv4Addr, Ipv6Addr};
use std::sync::atomic::{AtomicU64, Ordering};
use std::sync::Arc;

// ------------------------------------------------------------------ shared tables
pub const NAMES: [&str; 5] = ["mqtt", "mqtt-b", "x", "Mqtt", ""];
pub fn name_of(k: usize) -> String { NAMES[k % NAMES.len()].to_string() }

pub fn afisafi(k: u32) -> AfiSafiType {
    match k % 6 {
        0 => AfiSafiType::Ipv4Unicast,
        1 => AfiSafiType::Ipv6Unicast,
        2 => AfiSafiType::Ipv4Multicast,
        3 => AfiSafiType::Ipv6Multicast,
        4 => AfiSafiType::Ipv4FlowSpec,
        _ => AfiSafiType::L2VpnEvpn,
    }
}
/// what serde prints for the AfiSafiType of index k (checked against the
/// implementation by the round trip: the harness maps the printed name back)
pub fn afisafi_index(v: &serde_json::Value) -> Option<u32> {
    (0..6).find(|k| serde_json::to_value(afisafi(*k)).ok().as_ref() == Some(v))
}

pub fn ip_of(k: u32) -> IpAddr {
    if k % 2 == 0 { IpAddr::V4(Ipv4Addr::from(0x0a00_0000u32 + k / 2)) }
    else { IpAddr::V6(Ipv6Addr::from((0x2001_0db8u128 << 96) + (k / 2) as u128)) }
}
pub fn ip_index(s: &str) -> Option<u32> {
    match s.parse::<IpAddr>().ok()? {
        IpAddr::V4(a) => u32::from(a).checked_sub(0x0a00_0000).map(|x| x * 2),
        IpAddr::V6(a) => u128::from(a).checked_sub(0x2001_0db8u128 << 96).and_then(|x| u32::try_from(x).ok()).map(|x| x * 2 + 1),
    }
}

/// dotted code points ("104.105", "e" = empty) -> String
pub fn text_of(tok: &str) -> String {
    if tok == "e" { return String::new(); }
    tok.split('.').map(|c| char::from_u32(c.parse::<u32>().expect("code point")).expect("scalar value")).collect()
}
pub fn text_tok(s: &str) -> String {
    if s.is_empty() { "e".into() } else { s.chars().map(|c| (c as u32).to_string()).collect::<Vec<_>>().join(".") }
}

// ------------------------------------------------------------------ routes
/// route token: `-` | `R<fam>,<idx>,<len>,<attrs>`; fam 0=v4 unicast 1=v6 unicast 2=v4 multicast 3=v6 multicast;
/// attrs: `0` or `+`-separated: o<k> origin, p<asn>-<asn>.. AS path, n<k> next hop 10.1.0.k, m<k> MED,
/// l<k> LOCAL_PREF, t atomic aggregate, c<u32>-<u32>.. standard communities.
pub fn prefix_of(fam: u32, idx: u32, len: u8) -> inetnum::addr::Prefix {
    if fam % 2 == 0 {
        let len = len.min(32);
        let bits = if len == 0 { 0 } else { ((idx as u64) << (32 - len as u32)) as u32 };
        inetnum::addr::Prefix::new(IpAddr::V4(Ipv4Addr::from(bits)), len).expect("v4 prefix")
    } else {
        let len = len.min(128);
        let bits: u128 = if len == 0 { 0 } else { (idx as u128).checked_shl(128 - len as u32).unwrap_or(0) };
        inetnum::addr::Prefix::new(IpAddr::V6(Ipv6Addr::from(bits)), len).expect("v6 prefix")
    }
}

fn pa(flags: u8, typ: u8, val: &[u8]) -> Vec<u8> {
    let mut v = vec![flags, typ, val.len() as u8];
    v.extend_from_slice(val);
    v
}

pub fn attr_bytes(spec: &str) -> Vec<u8> {
    let mut out = vec![];
    if spec == "0" { return out; }
    for a in spec.split('+') {
        let (k, rest) = a.split_at(1);
        let nums = || rest.split('-').filter(|s| !s.is_empty()).map(|s| s.parse::<u32>().expect("attr number")).collect::<Vec<u32>>();
        match k {
            "o" => out.extend(pa(0x40, 1, &[nums()[0] as u8])),
            "p" => {
                let asns = nums();
                let mut v = vec![2u8, asns.len() as u8];
                for a in asns { v.extend_from_slice(&a.to_be_bytes()); }
                out.extend(pa(0x40, 2, &v));
            }
            "n" => out.extend(pa(0x40, 3, &[10, 1, 0, nums()[0] as u8])),
            "m" => out.extend(pa(0x80, 4, &nums()[0].to_be_bytes())),
            "l" => out.extend(pa(0x40, 5, &nums()[0].to_be_bytes())),
            "t" => out.extend(pa(0x40, 6, &[])),
            "c" => {
                let mut v = vec![];
                for c in nums() { v.extend_from_slice(&c.to_be_bytes()); }
                out.extend(pa(0xc0, 8, &v));
            }
            // extended communities: e<hi>_<lo>-<hi>_<lo>...
            "e" => {
                let mut v = vec![];
                for c in rest.split('-') {
                    let (hi, lo) = c.split_once('_').expect("hi_lo");
                    v.extend_from_slice(&hi.parse::<u32>().unwrap().to_be_bytes());
                    v.extend_from_slice(&lo.parse::<u32>().unwrap().to_be_bytes());
                }
                out.extend(pa(0xc0, 16, &v));
            }
            // raw attribute: x<flags>-<type>-<byte>-<byte>...
            "x" => { let b = nums(); out.extend(pa(b[0] as u8, b[1] as u8, &b[2..].iter().map(|x| *x as u8).collect::<Vec<u8>>())) }
            _ => panic!("bad attribute {a}"),
        }
    }
    out
}

pub fn route_of(tok: &str) -> Option<RotondaRoute> {
    if tok == "-" { return None; }
    let f: Vec<&str> = tok[1..].split(',').collect();
    assert!(tok.starts_with('R') && f.len() == 4, "bad route {tok}");
    let fam: u32 = f[0].parse().unwrap();
    let p = prefix_of(fam, f[1].parse().unwrap(), f[2].parse().unwrap());
    let pamap = RotondaPaMap(OwnedPathAttributes::new(PduParseInfo::modern(), attr_bytes(f[3])));
    Some(match fam % 4 {
        0 => RotondaRoute::Ipv4Unicast(Ipv4UnicastNlri::try_from(p).unwrap(), pamap),
        1 => RotondaRoute::Ipv6Unicast(Ipv6UnicastNlri::try_from(p).unwrap(), pamap),
        2 => RotondaRoute::Ipv4Multicast(Ipv4MulticastNlri::try_from(p).unwrap(), pamap),
        _ => RotondaRoute::Ipv6Multicast(Ipv6MulticastNlri::try_from(p).unwrap(), pamap),
    })
}

// ------------------------------------------------------------------ messages
pub struct Ings { pub reg: Arc<Register>, pub ids: Vec<IngressId> }
impl Ings {
    pub fn new() -> Self { Ings { reg: Arc::new(rotonda::verif::ingress::new_register()), ids: vec![] } }
    pub fn resolve(&self, tok: &str) -> Option<IngressId> {
        if tok == "-" { None } else { let k: usize = tok.parse().unwrap(); Some(self.ids.get(k).copied().unwrap_or(1_000_000 + k as u32)) }
    }
}

/// the 8 fields of an IngressInfo (unit parent addr asn rib file name desc, '-' = unset)
pub fn info_of(f: &[&str]) -> IngressInfo {
    assert!(f.len() == 8, "ing: 8 fields expected");
    let n = |t: &str| t.parse::<u32>().unwrap();
    let mut i = IngressInfo::new();
    i.unit_name = opt_tok(f[0], |t| format!("s{t}"));
    i.parent_ingress = opt_tok(f[1], n);
    i.remote_addr = opt_tok(f[2], |t| ip_of(n(t)));
    i.remote_asn = opt_tok(f[3], |t| inetnum::asn::Asn::from_u32(n(t)));
    i.rib_type = opt_tok(f[4], |t| match n(t) % 3 { 0 => routecore::bmp::message::RibType::AdjRibIn, 1 => routecore::bmp::message::RibType::AdjRibOut, _ => routecore::bmp::message::RibType::LocRib });
    i.filename = opt_tok(f[5], |t| std::path::PathBuf::from(format!("s{t}")));
    i.name = opt_tok(f[6], |t| format!("s{t}"));
    i.desc = opt_tok(f[7], |t| format!("s{t}"));
    i
}


pub fn opt_n<T: std::str::FromStr>(t: &str) -> Option<T> where T::Err: std::fmt::Debug {
    if t == "-" { None } else { Some(t.parse::<T>().unwrap()) }
}

pub fn entry_of(fields: &str, custom: &str) -> LogEntry {
    let f: Vec<&str> = fields.split(',').collect();
    assert!(f.len() == 10, "entry: 10 fields expected");
    let asn = |t: &str| opt_n::<u32>(t).map(inetnum::asn::Asn::from_u32);
    LogEntry {
        timestamp: chrono::DateTime::from_timestamp_micros(f[0].parse::<i64>().unwrap()).expect("timestamp"),
        origin_as: asn(f[1]),
        peer_as: asn(f[2]),
        as_path_hops: opt_n(f[3]),
        conventional_reach: f[4].parse().unwrap(),
        conventional_unreach: f[5].parse().unwrap(),
        mp_reach: opt_n(f[6]),
        mp_reach_afisafi: opt_n::<u32>(f[7]).map(afisafi),
        mp_unreach: opt_n(f[8]),
        mp_unreach_afisafi: opt_n::<u32>(f[9]).map(afisafi),
        custom: if custom == "-" { None } else { Some(text_of(custom)) },
    }
}

/// message token -> OutputStreamMessage (through the public constructors only)
pub fn msg_of(tok: &str, ings: &Ings) -> OutputStreamMessage {
    let f: Vec<&str> = tok.split(':').collect();
    match f[0] {
        "p" => OutputStreamMessage::prefix(route_of(f[1]), ings.resolve(f[2])),
        "c" => OutputStreamMessage::community(route_of(f[1]), ings.resolve(f[2])),
        "a" => OutputStreamMessage::asn(route_of(f[1]), ings.resolve(f[2])),
        "o" => OutputStreamMessage::origin(route_of(f[1]), ings.resolve(f[2])),
        "d" => OutputStreamMessage::peer_down(
            name_of(f[1].parse().unwrap()), text_of(f[2]), ip_of(f[3].parse().unwrap()),
            inetnum::asn::Asn::from_u32(f[4].parse().unwrap()), ings.resolve(f[5])),
        "u" => OutputStreamMessage::custom(f[1].parse().unwrap(), f[2].parse().unwrap(), ings.resolve(f[3])),
        "e" => OutputStreamMessage::entry(entry_of(f[1], f[2]), ings.resolve(f[3])),
        _ => panic!("bad message {tok}"),
    }
}

fn payload(tok: &str) -> Payload {
    Payload::new(route_of(tok).expect("route"), RouteContext::for_reprocessing(), None)
}

/// update op -> Update (None for configuration ops)
pub fn update_of(op: &[&str], ings: &Ings) -> Option<Update> {
    Some(match op[0] {
        "O" => Update::OutputStream(op[1..].iter().map(|t| msg_of(t, ings)).collect::<SmallVec<[OutputStreamMessage; 2]>>()),
        "S" => Update::Single(payload(op[1])),
        "B" => Update::Bulk(op[1..].iter().map(|t| payload(t)).collect()),
        "W" => Update::Withdraw(ings.resolve(op[1]).unwrap_or(0), op.get(2).map(|t| afisafi(t.parse().unwrap()))),
        "WB" => Update::WithdrawBulk(op[1..].iter().map(|t| ings.resolve(t).unwrap_or(0)).collect()),
        "Q" => Update::QueryResult(uuid::Uuid::nil(), Err("q".into())),
        "U" => Update::UpstreamStatusChange(UpstreamStatus::EndOfStream { ingress_id: ings.resolve(op[1]).unwrap_or(0) }),
        _ => return None,
    })
}

// ------------------------------------------------------------------ parsing records back
use serde_json::Value;

fn num(v: &Value) -> Option<String> { v.as_u64().map(|n| n.to_string()).or_else(|| v.as_i64().map(|n| n.to_string())) }
fn opt_num(v: Option<&Value>) -> Option<String> {
    match v { None | Some(Value::Null) => Some("-".into()), Some(x) => num(x) }
}

/// JSON attribute list (as printed by RotondaPaMap's Serialize) -> attr spec
fn attrs_tok(v: &Value) -> Option<String> {
    let mut out = vec![];
    for a in v.as_array()? {
        let o = a.as_object()?;
        if o.len() != 1 { return None; }
        let (k, val) = o.iter().next()?;
        match k.as_str() {
            "origin" => out.push(format!("o{}", match val.as_str()? { "Igp" => 0, "Egp" => 1, "Incomplete" => 2, _ => return None })),
            "asPath" => {
                let hops: Option<Vec<String>> = val.as_array()?.iter().map(|h| {
                    h.as_str().and_then(|s| s.strip_prefix("AS").map(|x| x.to_string())).or_else(|| num(h))
                }).collect();
                out.push(format!("p{}", hops?.join("-")));
            }
            "conventionalNextHop" | "nextHop" => {
                let ip: Ipv4Addr = val.as_str()?.parse().ok()?;
                let o = ip.octets();
                if o[0] != 10 || o[1] != 1 || o[2] != 0 { return None; }
                out.push(format!("n{}", o[3]));
            }
            "multiExitDisc" => out.push(format!("m{}", num(val)?)),
            "localPref" => out.push(format!("l{}", num(val)?)),
            "atomicAggregate" => out.push("t".into()),
            "communities" => {
                let (mut std, mut ext) = (vec![], vec![]);
                for c in val.as_array()? {
                    let hex = comm_hex(c.get("rawFields")?)?;
                    match (c.get("type")?.as_str()?, hex.len()) {
                        ("standard", 8) => std.push(u32::from_str_radix(&hex, 16).ok()?.to_string()),
                        ("extended", 16) => ext.push(format!("{}_{}", u32::from_str_radix(&hex[..8], 16).ok()?, u32::from_str_radix(&hex[8..], 16).ok()?)),
                        _ => return None,
                    }
                }
                if !std.is_empty() { out.push(format!("c{}", std.join("-"))); }
                if !ext.is_empty() { out.push(format!("e{}", ext.join("-"))); }
            }
            "invalid" => {
                let a = val.as_array()?;
                let mut f = vec![num(a.first()?)?, num(a.get(1)?)?];
                for b in a.get(2)?.as_array()? { f.push(num(b)?); }
                out.push(format!("x{}", f.join("-")));
            }
            "unimplemented" => {
                let mut f = vec![num(val.get("flags")?)?, num(val.get("type_code")?)?];
                for b in val.get("value")?.as_array()? { f.push(num(b)?); }
                out.push(format!("x{}", f.join("-")));
            }
            _ => return None,
        }
    }
    Some(if out.is_empty() { "0".into() } else { out.join("+") })
}

/// rawFields (["0xFDE8", "0x0001"], ...) -> the hex digits concatenated
fn comm_hex(v: &Value) -> Option<String> {
    let parts: Option<Vec<&str>> = v.as_array()?.iter().map(|p| p.as_str().and_then(|s| s.strip_prefix("0x"))).collect();
    Some(parts?.concat())
}

fn prefix_tok(s: &str) -> Option<String> {
    let p: inetnum::addr::Prefix = s.parse().ok()?;
    let len = p.len();
    Some(match p.addr() {
        IpAddr::V4(a) => format!("4,{},{}", if len == 0 { 0 } else { u32::from(a) >> (32 - len as u32) }, len),
        IpAddr::V6(a) => format!("6,{},{}", if len == 0 { 0 } else { u128::from(a) >> (128 - len as u32) }, len),
    })
}

/// `minimal`: the json-min form (no `custom`, unset fields absent) is required; otherwise the full form (all 11 keys)
fn entry_tok(o: &serde_json::Map<String, Value>, minimal: bool) -> Option<String> {
    if minimal && (o.contains_key("custom") || o.values().any(|v| v.is_null())) { return None; }
    if !minimal && o.len() != 11 { return None; }
    const KEYS: [&str; 11] = ["timestamp", "origin_as", "peer_as", "as_path_hops", "conventional_reach", "conventional_unreach",
        "mp_reach", "mp_reach_afisafi", "mp_unreach", "mp_unreach_afisafi", "custom"];
    if o.keys().any(|k| !KEYS.contains(&k.as_str())) { return None; }
    let afs = |k: &str| match o.get(k) { None | Some(Value::Null) => Some("-".to_string()), Some(v) => afisafi_index(v).map(|x| x.to_string()) };
    let f = vec![
        num(o.get("timestamp")?)?, opt_num(o.get("origin_as"))?, opt_num(o.get("peer_as"))?, opt_num(o.get("as_path_hops"))?,
        num(o.get("conventional_reach")?)?, num(o.get("conventional_unreach")?)?,
        opt_num(o.get("mp_reach"))?, afs("mp_reach_afisafi")?, opt_num(o.get("mp_unreach"))?, afs("mp_unreach_afisafi")?,
    ];
    let custom = match o.get("custom") { None | Some(Value::Null) => "-".to_string(), Some(Value::String(s)) => text_tok(s), _ => return None };
    Some(format!("E{}:{}", f.join(","), custom))
}

/// a JSON value -> canonical record token (None if it has none of the record shapes)
pub fn record_tok(v: &Value) -> Option<String> { record_tok_fmt(v, false) }

pub fn record_tok_fmt(v: &Value, minimal: bool) -> Option<String> {
    match v {
        Value::Null => Some("R-".into()),
        Value::Array(a) if a.len() == 2 => Some(format!("D{},{}", ip_index(a[0].as_str()?)?, num(&a[1])?)),
        Value::Object(o) => {
            if o.len() == 2 && o.contains_key("prefix") && o.contains_key("attributes") {
                Some(format!("R{},{}", prefix_tok(o["prefix"].as_str()?)?, attrs_tok(&o["attributes"])?))
            } else if o.len() == 2 && o.contains_key("id") && o.contains_key("value") {
                Some(format!("U{},{}", num(&o["id"])?, num(&o["value"])?))
            } else if o.contains_key("timestamp") {
                entry_tok(o, minimal)
            } else { None }
        }
        _ => None,
    }
}

fn csv_tok(line: &str) -> Option<String> {
    let mut rd = csv::ReaderBuilder::new().has_headers(false).flexible(true).from_reader(line.as_bytes());
    let mut recs = rd.records();
    let rec = recs.next()?.ok()?;
    if recs.next().is_some() { return None; }
    let f: Vec<&str> = rec.iter().collect();
    if !f.is_empty() && f[0].contains('/') {
        if let Some(p) = prefix_tok(f[0]) { return csv_attrs(&f[1..]).map(|a| format!("R{},{}", p, a)); }
    }
    let on = |s: &str| if s.is_empty() { Some("-".to_string()) } else { s.parse::<u64>().ok().map(|n| n.to_string()) };
    match f.len() {
        1 if f[0].is_empty() && line.trim_end() == "\"\"" => Some("R-".into()),
        2 => {
            if let Some(ip) = ip_index(f[0]) { Some(format!("D{},{}", ip, f[1].parse::<u32>().ok()?)) }
            else { Some(format!("U{},{}", f[0].parse::<u32>().ok()?, f[1].parse::<u32>().ok()?)) }
        }
        11 => {
            let afs = |s: &str| if s.is_empty() { Some("-".to_string()) } else { afisafi_index(&Value::String(s.to_string())).map(|x| x.to_string()) };
            let v = vec![f[0].parse::<i64>().ok()?.to_string(), on(f[1])?, on(f[2])?, on(f[3])?, f[4].parse::<u64>().ok()?.to_string(),
                f[5].parse::<u64>().ok()?.to_string(), on(f[6])?, afs(f[7])?, on(f[8])?, afs(f[9])?];
            if !f[10].is_empty() { return None; }
            Some(format!("E{}:-", v.join(",")))
        }
        _ => None,
    }
}

/// the flattened attributes of a route in a csv line -> attr spec. The csv has no
/// field names: a bare number is a MED below 1000 and a LOCAL_PREF from 1000
/// (the generator keeps to that), communities come last.
fn csv_attrs(f: &[&str]) -> Option<String> {
    let mut out: Vec<String> = vec![];
    let mut i = 0;
    let mut comms: Vec<String> = vec![];
    while i < f.len() {
        let x = f[i];
        if let Some(o) = match x { "Igp" => Some(0), "Egp" => Some(1), "Incomplete" => Some(2), _ => None } {
            out.push(format!("o{o}")); i += 1;
        } else if x.starts_with("AS") && comms.is_empty() {
            let mut hops = vec![];
            while i < f.len() && f[i].starts_with("AS") { hops.push(f[i][2..].parse::<u32>().ok()?.to_string()); i += 1; }
            out.push(format!("p{}", hops.join("-")));
        } else if let Ok(ip) = x.parse::<Ipv4Addr>() {
            let o = ip.octets();
            if o[0] != 10 || o[1] != 1 || o[2] != 0 { return None; }
            out.push(format!("n{}", o[3])); i += 1;
        } else if let Ok(n) = x.parse::<u32>() {
            out.push(if n < 1000 { format!("m{n}") } else { format!("l{n}") }); i += 1;
        } else if x == "AtomicAggregate" {
            out.push("t".into()); i += 1;
        } else if x.starts_with("0x") {
            let mut hex = String::new();
            while i < f.len() && f[i].starts_with("0x") { hex.push_str(&f[i][2..]); i += 1; }
            if hex.len() != 8 || f.get(i) != Some(&"standard") { return None; }
            comms.push(u32::from_str_radix(&hex, 16).ok()?.to_string());
            while i < f.len() && !f[i].starts_with("0x") { i += 1; }
        } else { return None; }
    }
    if !comms.is_empty() { out.push(format!("c{}", comms.join("-"))); }
    Some(if out.is_empty() { "0".into() } else { out.join("+") })
}

pub fn line_tok(fmt: &str, line: &str) -> String {
    let rec = if fmt == "csv" { csv_tok(line) } else { serde_json::from_str::<Value>(line).ok().and_then(|v| record_tok_fmt(&v, fmt == "json-min")) };
    rec.unwrap_or_else(|| format!("T{}", text_tok(line)))
}

// ------------------------------------------------------------------ running the target
static SEQ: AtomicU64 = AtomicU64::new(0);

fn tmp_path() -> std::path::PathBuf {
    let base = std::env::var("VERIF_TMP").map(std::path::PathBuf::from).unwrap_or_else(|_| {
        let exe = std::env::current_exe().unwrap();
        // <verif>/.cache/target/release/vh -> <verif>/.cache/c17-tmp
        exe.ancestors().nth(3).map(|p| p.join("c17-tmp")).unwrap_or_else(std::env::temp_dir)
    });
    std::fs::create_dir_all(&base).unwrap();
    base.join(format!("out-{}-{}.txt", std::process::id(), SEQ.fetch_add(1, Ordering::SeqCst)))
}

pub struct FileRun { pub content: Vec<u8>, pub ok: bool }

/// Runs `FileRunner::run` connected to a real gate; pushes the updates through
/// the gate in order; ends the target (`term`: Terminate command once the
/// link queue is known to be drained; otherwise the gate goes away) and reads
/// the file.
pub fn run_file_target(fmt: &str, updates: Vec<Update>, term: bool) -> FileRun {
    let ings = Arc::new(rotonda::verif::ingress::new_register());
    run_file_target_steps(fmt, updates.into_iter().map(Step::Up).collect(), term, ings)
}

/// one step of a file-out case: an update through the gate, or a call on the shared
/// ingress register (what the ingress units do between the target's messages)
pub enum Step { Up(Update), Info(IngressId, IngressInfo) }

pub fn run_file_target_steps(fmt: &str, steps: Vec<Step>, term: bool, ings: Arc<Register>) -> FileRun {
    let path = tmp_path();
    let rt = tokio::runtime::Builder::new_current_thread().enable_all().build().unwrap();
    let ok = rt.block_on(async {
        let component = Component::verif_new("file-out", "file-out", ings.clone());
        let runner = FileRunner::verif_new(fmt, path.clone(), component).expect("format");
        // queue of 1: a later send completes only after the earlier update was taken by the target
        let (gate, mut agent) = Gate::new(1);
        let link = agent.create_link();
        let (cmd_tx, cmd_rx) = tokio::sync::mpsc::channel(4);
        let coordinator = Coordinator::new(1);
        let waitpoint = coordinator.clone().track("file-out".to_string());
        let h = tokio::spawn(runner.run(link, cmd_rx, waitpoint));
        let _ = gate.process_until(coordinator.wait(|_, _| {})).await;
        for st in steps {
            match st {
                Step::Up(u) => gate.update_data(u).await,
                Step::Info(id, info) => { ings.verif_update_info(id, info); }
            }
        }
        if term {
            // two no-op updates: when the second is accepted the first was received,
            // i.e. every earlier update has been processed completely
            gate.update_data(Update::WithdrawBulk(Default::default())).await;
            gate.update_data(Update::WithdrawBulk(Default::default())).await;
            cmd_tx.send(TargetCommand::Terminate).await.ok();
        } else {
            drop(gate);
            drop(agent);
        }
        let r = tokio::time::timeout(std::time::Duration::from_secs(20), h).await;
        drop(cmd_tx);
        matches!(r, Ok(Ok(Ok(()))))
    });
    drop(rt);
    let content = std::fs::read(&path).unwrap_or_default();
    let _ = std::fs::remove_file(&path);
    FileRun { content, ok }
}

pub struct Case { pub fmt: String, pub term: bool, pub steps: Vec<Step>, pub reg: Arc<Register> }

pub fn parse_case(line: &str) -> Case {
    let mut ings = Ings::new();
    let mut c = Case { fmt: "json".into(), term: true, steps: vec![], reg: ings.reg.clone() };
    for op in ops(line) {
        match op[0] {
            "fmt" => c.fmt = match op[1] { "jsonmin" => "json-min".into(), x => x.to_string() },
            "end" => c.term = op[1] == "T",
            "name" | "tpl" | "qos" => {}
            // ids are handed out here (the messages need them); the entries are written when the step runs
            "ing" => { let id = ings.reg.verif_register(); ings.ids.push(id); c.steps.push(Step::Info(id, info_of(&op[1..]))); }
            "reg" => { let id = ings.reg.verif_register(); ings.ids.push(id); }
            "G" => c.steps.push(Step::Info(ings.resolve(op[1]).expect("G: ingress expected"), info_of(&op[2..]))),
            _ => if let Some(u) = update_of(&op, &ings) { c.steps.push(Step::Up(u)) } else { panic!("bad op {:?}", op) },
        }
    }
    c
}

pub fn run_case(line: &str) -> String {
    let c = parse_case(line);
    let r = run_file_target_steps(&c.fmt, c.steps, c.term, c.reg);
    let mut out: Vec<String> = vec![];
    let text = String::from_utf8_lossy(&r.content).to_string();
    let mut rest = text.as_str();
    while let Some(i) = rest.find('\n') {
        out.push(line_tok(&c.fmt, &rest[..i]));
        rest = &rest[i + 1..];
    }
    if !rest.is_empty() { out.push(format!("UNTERMINATED:{}", text_tok(rest))); }
    out.push(if r.ok { "end:ok".into() } else { "end:stopped".into() });
    out.join(" ")
}

pub fn special(name: &str, args: &[String]) -> bool {
    if name != "c17-dump" { return false; }
    // c17-dump <case>: raw file content, for debugging the engine
    let c = parse_case(&args.join(" "));
    let r = run_file_target_steps(&c.fmt, c.steps, c.term, c.reg);
    println!("ok={} bytes={}", r.ok, r.content.len());
    print!("{}", String::from_utf8_lossy(&r.content));
    true
}
