//! C14: the ingress Register. Same case grammar as oracle/eng_c14.ml.
use crate::util::{ops, opt_tok};
use rotonda::verif::ingress::{new_register, IngressInfo, Register};
use routecore::bmp::message::RibType;
use std::net::{IpAddr, Ipv4Addr};

fn rib(n: u32) -> RibType {
    match n { 0 => RibType::AdjRibIn, 1 => RibType::AdjRibOut, _ => RibType::LocRib }
}
fn rib_n(r: RibType) -> u32 {
    match r { RibType::AdjRibIn => 0, RibType::AdjRibOut => 1, RibType::LocRib => 2 }
}
fn addr(n: u32) -> IpAddr { IpAddr::V4(Ipv4Addr::from(0x0a000000u32 + n)) }
fn addr_n(a: IpAddr) -> u32 {
    match a { IpAddr::V4(a) => u32::from(a) - 0x0a000000, _ => u32::MAX }
}
fn s_n(s: &str) -> String { s.trim_start_matches('s').to_string() }

struct St { reg: Register, fresh: Vec<u32> }
impl St {
    fn resolve(&self, k: usize) -> u32 { self.fresh.get(k).copied().unwrap_or(1_000_000 + k as u32) }
    fn canon(&self, id: u32) -> String {
        match self.fresh.iter().position(|x| *x == id) { Some(i) => format!("#{i}"), None => format!("?{id}") }
    }
    fn info(&self, f: &[&str]) -> IngressInfo {
        assert!(f.len() == 8, "info: 8 fields expected");
        let n = |t: &str| t.parse::<u32>().unwrap();
        let mut i = IngressInfo::new();
        i.unit_name = opt_tok(f[0], |t| format!("s{t}"));
        i.parent_ingress = opt_tok(f[1], |t| self.resolve(n(t) as usize));
        i.remote_addr = opt_tok(f[2], |t| addr(n(t)));
        i.remote_asn = opt_tok(f[3], |t| inetnum::asn::Asn::from_u32(n(t)));
        i.rib_type = opt_tok(f[4], |t| rib(n(t)));
        i.filename = opt_tok(f[5], |t| std::path::PathBuf::from(format!("s{t}")));
        i.name = opt_tok(f[6], |t| format!("s{t}"));
        i.desc = opt_tok(f[7], |t| format!("s{t}"));
        i
    }
    fn show(&self, i: &IngressInfo) -> String {
        let d = "-".to_string();
        [
            i.unit_name.as_deref().map(s_n).unwrap_or(d.clone()),
            i.parent_ingress.map(|p| self.canon(p)).unwrap_or(d.clone()),
            i.remote_addr.map(|a| addr_n(a).to_string()).unwrap_or(d.clone()),
            i.remote_asn.map(|a| a.into_u32().to_string()).unwrap_or(d.clone()),
            i.rib_type.map(|r| rib_n(r).to_string()).unwrap_or(d.clone()),
            i.filename.as_ref().map(|p| s_n(&p.to_string_lossy())).unwrap_or(d.clone()),
            i.name.as_deref().map(s_n).unwrap_or(d.clone()),
            i.desc.as_deref().map(s_n).unwrap_or(d.clone()),
        ].join(",")
    }
    fn ids(&self, mut l: Vec<u32>) -> Vec<String> { l.sort(); l.into_iter().map(|i| self.canon(i)).collect() }
}

pub fn run_case(line: &str) -> String {
    let mut st = St { reg: new_register(), fresh: vec![] };
    let mut out: Vec<String> = vec![];
    for op in ops(line) {
        let k = |i: usize| op[i].parse::<usize>().unwrap();
        match op[0] {
            "R" => {
                let id = st.reg.verif_register();
                if st.fresh.contains(&id) { out.push("r:DUP".into()) } else { st.fresh.push(id); out.push(format!("r:{}", st.canon(id))) }
            }
            "U" => { let id = st.resolve(k(1)); let i = st.info(&op[2..]); st.reg.verif_update_info(id, i); out.push("u".into()) }
            "G" => match st.reg.get(st.resolve(k(1))) {
                None => out.push("g:none".into()),
                Some(i) => out.push(format!("g:{}", st.show(&i))),
            },
            "C" => { let l = st.reg.ids_for_parent(st.resolve(k(1))); out.push(format!("c:[{}]", st.ids(l).join(","))) }
            "FP" | "FR" => {
                let q = st.info(&op[1..]);
                let r = if op[0] == "FP" { st.reg.find_existing_peer(&q) } else { st.reg.find_existing_bmp_router(&q) };
                match r { None => out.push("f:none".into()), Some((id, _)) => out.push(format!("f:{}", st.canon(id))) }
            }
            // the callers' composite: machine.rs add_peer_config / bmp unit.rs accept loop
            "OP" | "OR" => {
                let q = st.info(&op[1..]);
                let r = if op[0] == "OP" { st.reg.find_existing_peer(&q) } else { st.reg.find_existing_bmp_router(&q) };
                match r {
                    Some((id, _)) => out.push(format!("o:{}", st.canon(id))),
                    None => {
                        let id = st.reg.verif_register();
                        st.reg.verif_update_info(id, q);
                        if st.fresh.contains(&id) { out.push("o:DUP".into()) } else { st.fresh.push(id); out.push(format!("o:{}", st.canon(id))) }
                    }
                }
            }
            _ => panic!("bad op {:?}", op),
        }
    }
    out.join(" ")
}

pub fn special(name: &str, args: &[String]) -> bool {
    if name == "c14-race" { race(args); true } else { false }
}

/// c14-race <threads> <per-thread>: concurrent register() calls; prints
/// "ok <n>" if all returned ids are distinct, else "dup <id>".
pub fn race(args: &[String]) {
    let t: usize = args.first().map(|s| s.parse().unwrap()).unwrap_or(16);
    let n: usize = args.get(1).map(|s| s.parse().unwrap()).unwrap_or(20000);
    let reg = std::sync::Arc::new(new_register());
    let hs: Vec<_> = (0..t).map(|_| { let r = reg.clone(); std::thread::spawn(move || (0..n).map(|_| r.verif_register()).collect::<Vec<u32>>()) }).collect();
    let mut all: Vec<u32> = hs.into_iter().flat_map(|h| h.join().unwrap()).collect();
    all.sort();
    for w in all.windows(2) { if w[0] == w[1] { println!("dup {}", w[0]); return; } }
    println!("ok {}", all.len());
}
