//! C14: the ingress Register. Same case grammar as oracle/eng_c14.ml.
use crate::util::{ops, opt_tok};
use rotonda::verif::ingress::{new_register, IngressInfo, Register};
use routecore::bmp::message::RibType;
use std::net::{IpAddr, Ipv4Addr};

fn rib(n: u32) -> RibType {
    match n { 0 => RibType::AdjRibIn, 1 => RibType::AdjRibOut, _ => RibType::LocRib }
}
fn rib_n(r: RibType) -> u32 {
    match r { RibType::AdjRibIn => 0, RibType::AdjRibOut => 1, RibType::LocRib => 2 }
}
fn addr(n: u32) -> IpAddr { IpAddr::V4(Ipv4Addr::from(0x0a000000u32 + n)) }
fn addr_n(a: IpAddr) -> u32 {
    match a { IpAddr::V4(a) => u32::from(a) - 0x0a000000, _ => u32::MAX }
}
fn s_n(s: &str) -> String { s.trim_start_matches('s').to_string() }

struct St { reg: Register, fresh: Vec<u32> }
impl St {
    fn resolve(&self, k: usize) -> u32 { self.fresh.get(k).copied().unwrap_or(1_000_000 + k as u32) }
    fn canon(&self, id: u32) -> String {
        match self.fresh.iter().position(|x| *x == id) { Some(i) => format!("#{i}"), None => format!("?{id}") }
    }
    fn info(&self, f: &[&str]) -> IngressInfo {
        assert!(f.len() == 8, "info: 8 fields expected");
        let n = |t: &str| t.parse::<u32>().unwrap();
        let mut i = IngressInfo::new();
        i.unit_name = opt_tok(f[0], |t| format!("s{t}"));
        i.parent_ingress = opt_tok(f[1], |t| self.resolve(n(t) as usize));
        i.remote_addr = opt_tok(f[2], |t| addr(n(t)));
        i.remote_asn = opt_tok(f[3], |t| inetnum::asn::Asn::from_u32(n(t)));
        i.rib_type = opt_tok(f[4], |t| rib(n(t)));
        i.filename = opt_tok(f[5], |t| std::path::PathBuf::from(format!("s{t}")));
        i.name = opt_tok(f[6], |t| format!("s{t}"));
        i.desc = opt_tok(f[7], |t| format!("s{t}"));
        i
    }
    fn show(&self, i: &IngressInfo) -> String {
        let d = "-".to_string();
        [
            i.unit_name.as_deref().map(s_n).unwrap_or(d.clone()),
            i.parent_ingress.map(|p| self.canon(p)).unwrap_or(d.clone()),
            i.remote_addr.map(|a| addr_n(a).to_string()).unwrap_or(d.clone()),
            i.remote_asn.map(|a| a.into_u32().to_string()).unwrap_or(d.clone()),
            i.rib_type.map(|r| rib_n(r).to_string()).unwrap_or(d.clone()),
            i.filename.as_ref().map(|p| s_n(&p.to_string_lossy())).unwrap_or(d.clone()),
            i.name.as_deref().map(s_n).unwrap_or(d.clone()),
            i.desc.as_deref().map(s_n).unwrap_or(d.clone()),
        ].join(",")
    }
    fn ids(&self, mut l: Vec<u32>) -> Vec<String> { l.sort(); l.into_iter().map(|i| self.canon(i)).collect() }
}

pub fn run_case(line: &str) -> String {
    let mut st = St { reg: new_register(), fresh: vec![] };
    let mut out: Vec<String> = vec![];
    for op in ops(line) {
        let k = |i: usize| op[i].parse::<usize>().unwrap();
        match op[0] {
            "R" => {
                let id = st.reg.verif_register();
                if st.fresh.contains(&id) { out.push("r:DUP".into()) } else { st.fresh.push(id); out.push(format!("r:{}", st.canon(id))) }
            }
            "U" => { let id = st.resolve(k(1)); let i = st.info(&op[2..]); st.reg.verif_update_info(id, i); out.push("u".into()) }
            "G" => match st.reg.get(st.resolve(k(1))) {
                None => out.push("g:none".into()),
                Some(i) => out.push(format!("g:{}", st.show(&i))),
            },
            "C" => { let l = st.reg.ids_for_parent(st.resolve(k(1))); out.push(format!("c:[{}]", st.ids(l).join(","))) }
            "FP" | "FR" => {
                let q = st.info(&op[1..]);
                let r = if op[0] == "FP" { st.reg.find_existing_peer(&q) } else { st.reg.find_existing_bmp_router(&q) };
                match r { None => out.push("f:none".into()), Some((id, _)) => out.push(format!("f:{}", st.canon(id))) }
            }
            // the callers' composite: machine.rs add_peer_config / bmp unit.rs accept loop
            "OP" | "OR" => {
                let q = st.info(&op[1..]);
                let r = if op[0] == "OP" { st.reg.find_existing_peer(&q) } else { st.reg.find_existing_bmp_router(&q) };
                match r {
                    Some((id, _)) => out.push(format!("o:{}", st.canon(id))),
                    None => {
                        let id = st.reg.verif_register();
                        st.reg.verif_update_info(id, q);
                        if st.fresh.contains(&id) { out.push("o:DUP".into()) } else { st.fresh.push(id); out.push(format!("o:{}", st.canon(id))) }
                    }
                }
            }
            _ => panic!("bad op {:?}", op),
        }
    }
    out.join(" ")
}

pub fn special(name: &str, args: &[String]) -> bool {
    if name == "c14-race" { race(args); true } else if name == "c14-contend" { contend(args); true } else { false }
}

/// c14-contend <readers> <calls per reader>: the list answers of the register while writers are inside it.
/// A parent with 5 children is registered. Part 1 (deterministic): a thread holds the register's WRITE lock
/// (Register::verif_with_write_lock - what update_info does for the length of its body) while another asks
/// ids_for_parent: the answer must not come while the lock is held (25 ms), and must be all 5 children once it
/// is released. Part 2 (soak): writer threads keep calling update_info on ids outside the family while reader
/// threads ask ids_for_parent / get / find_existing_peer: every answer is the complete one.
/// Prints "ok <answers checked>" or "incomplete ...".
pub fn contend(args: &[String]) {
    use std::sync::atomic::{AtomicBool, Ordering::SeqCst};
    use std::sync::{mpsc, Arc};
    use std::time::Duration;
    let readers: usize = args.first().map(|s| s.parse().unwrap()).unwrap_or(8);
    let n: usize = args.get(1).map(|s| s.parse().unwrap()).unwrap_or(20000);
    let reg = Arc::new(new_register());
    let unit = reg.verif_register();
    let parent = reg.verif_register();
    reg.verif_update_info(parent, IngressInfo::new().with_parent(unit).with_remote_addr(addr(1)));
    let mut kids: Vec<u32> = (0..5u32).map(|k| {
        let id = reg.verif_register();
        reg.verif_update_info(id, IngressInfo::new().with_parent(parent).with_remote_addr(addr(10 + k)).with_remote_asn(inetnum::asn::Asn::from_u32(65000 + k)));
        id
    }).collect();
    kids.sort();
    // ids the writers work on: children of another parent
    let other = reg.verif_register();
    let strangers: Vec<u32> = (0..8).map(|_| reg.verif_register()).collect();
    let complete = |mut l: Vec<u32>| { l.sort(); l == kids };

    // part 1
    let (locked_tx, locked_rx) = mpsc::channel::<()>();
    let (release_tx, release_rx) = mpsc::channel::<()>();
    let r = reg.clone();
    let holder = std::thread::spawn(move || r.verif_with_write_lock(|| { let _ = locked_tx.send(()); let _ = release_rx.recv(); }));
    locked_rx.recv().unwrap();
    let (ans_tx, ans_rx) = mpsc::channel::<Vec<u32>>();
    let r = reg.clone();
    let asker = std::thread::spawn(move || { let _ = ans_tx.send(r.ids_for_parent(parent)); });
    let early = ans_rx.recv_timeout(Duration::from_millis(25)).ok();
    release_tx.send(()).unwrap();
    holder.join().unwrap();
    let late = if early.is_none() { ans_rx.recv_timeout(Duration::from_secs(5)).ok() } else { None };
    asker.join().unwrap();
    if let Some(a) = early {
        println!("incomplete ids_for_parent answered {:?} (children: {:?}) while a writer held the register's lock", a, kids);
        return;
    }
    match late {
        Some(a) if complete(a.clone()) => {}
        other => { println!("incomplete ids_for_parent after the writer left: {:?} (children: {:?})", other, kids); return; }
    }

    // part 2
    let stop = Arc::new(AtomicBool::new(false));
    let writers: Vec<_> = (0..4usize).map(|w| {
        let (r, stop, strangers) = (reg.clone(), stop.clone(), strangers.clone());
        std::thread::spawn(move || {
            let mut k = 0usize;
            while !stop.load(SeqCst) {
                let id = strangers[(w + k) % strangers.len()];
                r.verif_update_info(id, IngressInfo::new().with_parent(other).with_remote_addr(addr(100 + (k % 50) as u32)).with_name(format!("w{w}-{k}")));
                k += 1;
            }
            k
        })
    }).collect();
    let hs: Vec<_> = (0..readers).map(|_| {
        let (r, kids) = (reg.clone(), kids.clone());
        std::thread::spawn(move || -> Result<usize, String> {
            for i in 0..n {
                let mut a = r.ids_for_parent(parent);
                a.sort();
                if a != kids { return Err(format!("ids_for_parent answered {:?} (children: {:?}) while other ids were being updated", a, kids)); }
                let c = kids[i % kids.len()];
                match r.get(c) { Some(info) if info.parent_ingress == Some(parent) => {}, x => return Err(format!("get({c}) answered {:?}", x.map(|i| i.parent_ingress))) }
            }
            Ok(2 * n)
        })
    }).collect();
    let res: Vec<Result<usize, String>> = hs.into_iter().map(|h| h.join().unwrap()).collect();
    stop.store(true, SeqCst);
    let writes: usize = writers.into_iter().map(|h| h.join().unwrap()).sum();
    match res.iter().find_map(|r| r.as_ref().err()) {
        Some(e) => println!("incomplete {e}"),
        None => println!("ok {} answers, {} concurrent updates", res.iter().map(|r| *r.as_ref().unwrap()).sum::<usize>() + 1, writes),
    }
}

/// c14-race <threads> <per-thread>: concurrent register() calls; prints
/// "ok <n>" if all returned ids are distinct, else "dup <id>".
pub fn race(args: &[String]) {
    let t: usize = args.first().map(|s| s.parse().unwrap()).unwrap_or(16);
    let n: usize = args.get(1).map(|s| s.parse().unwrap()).unwrap_or(20000);
    let reg = std::sync::Arc::new(new_register());
    let hs: Vec<_> = (0..t).map(|_| { let r = reg.clone(); std::thread::spawn(move || (0..n).map(|_| r.verif_register()).collect::<Vec<u32>>()) }).collect();
    let mut all: Vec<u32> = hs.into_iter().flat_map(|h| h.join().unwrap()).collect();
    all.sort();
    for w in all.windows(2) { if w[0] == w[1] { println!("dup {}", w[0]); return; } }
    println!("ok {}", all.len());
}
