//! C14: the ingress Register. Same case grammar as oracle/eng_c14.ml.
use crate::util::{ops, opt_tok};
use rotonda::verif::ingress::{new_register, IngressInfo, Register};
use routecore::bmp::message::RibType;
use std::net::{IpAddr, Ipv4Addr};

fn rib(n: u32) -> RibType {
    match n { 0 => RibType::AdjRibIn, 1 => RibType::AdjRibOut, _ => RibType::LocRib }
}
fn rib_n(r: RibType) -> u32 {
    match r { RibType::AdjRibIn => 0, RibType::AdjRibOut => 1, RibType::LocRib => 2 }
}
fn addr(n: u32) -> IpAddr { IpAddr::V4(Ipv4Addr::from(0x0a000000u32 + n)) }
fn addr_n(a: IpAddr) -> u32 {
    match a { IpAddr::V4(a) => u32::from(a) - 0x0a000000, _ => u32::MAX }
}
fn s_n(s: &str) -> String { s.trim_start_matches('s').to_string() }

struct St { reg: Register, fresh: Vec<u32> }
impl St {
    fn resolve(&self, k: usize) -> u32 { self.fresh.get(k).copied().unwrap_or(1_000_000 + k as u32) }
    fn canon(&self, id: u32) -> String {
        match self.fresh.iter().position(|x| *x == id) { Some(i) => format!("#{i}"), None => format!("?{id}") }
    }
    fn info(&self, f: &[&str]) -> IngressInfo {
        assert!(f.len() == 8, "info: 8 fields expected");
        let n = |t: &str| t.parse::<u32>().unwrap();
        let mut i = IngressInfo::new();
        i.unit_name = opt_tok(f[0], |t| format!("s{t}"));
        i.parent_ingress = opt_tok(f[1], |t| self.resolve(n(t) as usize));
        i.remote_addr = opt_tok(f[2], |t| addr(n(t)));
        i.remote_asn = opt_tok(f[3], |t| inetnum::asn::Asn::from_u32(n(t)));
        i.rib_type = opt_tok(f[4], |t| rib(n(t)));
        i.filename = opt_tok(f[5], |t| std::path::PathBuf::from(format!("s{t}")));
        i.name = opt_tok(f[6], |t| format!("s{t}"));
        i.desc = opt_tok(f[7], |t| format!("s{t}"));
        i
    }
    fn show(&self, i: &IngressInfo) -> String {
        let d = "-".to_string();
        [
            i.unit_name.as_deref().map(s_n).unwrap_or(d.clone()),
            i.parent_ingress.map(|p| self.canon(p)).unwrap_or(d.clone()),
            i.remote_addr.map(|a| addr_n(a).to_string()).unwrap_or(d.clone()),
            i.remote_asn.map(|a| a.into_u32().to_string()).unwrap_or(d.clone()),
            i.rib_type.map(|r| rib_n(r).to_string()).unwrap_or(d.clone()),
            i.filename.as_ref().map(|p| s_n(&p.to_string_lossy())).unwrap_or(d.clone()),
            i.name.as_deref().map(s_n).unwrap_or(d.clone()),
            i.desc.as_deref().map(s_n).unwrap_or(d.clone()),
        ].join(",")
    }
    fn ids(&self, mut l: Vec<u32>) -> Vec<String> { l.sort(); l.into_iter().map(|i| self.canon(i)).collect() }
}

pub fn run_case(line: &str) -> String {
    let mut st = St { reg: new_register(), fresh: vec![] };
    let mut out: Vec<String> = vec![];
    for op in ops(line) {
        let k = |i: usize| op[i].parse::<usize>().unwrap();
        match op[0] {
            "R" => {
                let id = st.reg.verif_register();
                if st.fresh.contains(&id) { out.push("r:DUP".into()) } else { st.fresh.push(id); out.push(format!("r:{}", st.canon(id))) }
            }
            "U" => { let id = st.resolve(k(1)); let i = st.info(&op[2..]); st.reg.verif_update_info(id, i); out.push("u".into()) }
            "G" => match st.reg.get(st.resolve(k(1))) {
                None => out.push("g:none".into()),
                Some(i) => out.push(format!("g:{}", st.show(&i))),
            },
            "C" => { let l = st.reg.ids_for_parent(st.resolve(k(1))); out.push(format!("c:[{}]", st.ids(l).join(","))) }
            "FP" | "FR" => {
                let q = st.info(&op[1..]);
                let r = if op[0] == "FP" { st.reg.find_existing_peer(&q) } else { st.reg.find_existing_bmp_router(&q) };
                match r { None => out.push("f:none".into()), Some((id, _)) => out.push(format!("f:{}", st.canon(id))) }
            }
            // the callers' composite: machine.rs add_peer_config / bmp unit.rs accept loop
            "OP" | "OR" => {
                let q = st.info(&op[1..]);
                let r = if op[0] == "OP" { st.reg.find_existing_peer(&q) } else { st.reg.find_existing_bmp_router(&q) };
                match r {
                    Some((id, _)) => out.push(format!("o:{}", st.canon(id))),
                    None => {
                        let id = st.reg.verif_register();
                        st.reg.verif_update_info(id, q);
                        if st.fresh.contains(&id) { out.push("o:DUP".into()) } else { st.fresh.push(id); out.push(format!("o:{}", st.canon(id))) }
                    }
                }
            }
            _ => panic!("bad op {:?}", op),
        }
    }
    out.join(" ")
}

pub fn special(name: &str, args: &[String]) -> bool {
    if name == "c14-race" { race(args); true } else if name == "c14-contend" { contend(args); true }
    else if name == "c14-merge" { merge(args); true } else { false }
}

/// c14-contend <readers> <calls per reader>: the list answers of the register while writers are inside it.
/// A parent with 5 children is registered. Part 1 (deterministic): a thread holds the register's WRITE lock
/// (Register::verif_with_write_lock - what update_info does for the length of its body) while another asks
/// ids_for_parent: the answer must not come while the lock is held (25 ms), and must be all 5 children once it
/// is released. Part 2 (soak): writer threads keep calling update_info on ids outside the family while reader
/// threads ask ids_for_parent / get / find_existing_peer: every answer is the complete one.
/// Prints "ok <answers checked>" or "incomplete ...".
pub fn contend(args: &[String]) {
    use std::sync::atomic::{AtomicBool, Ordering::SeqCst};
    use std::sync::{mpsc, Arc};
    use std::time::Duration;
    let readers: usize = args.first().map(|s| s.parse().unwrap()).unwrap_or(8);
    let n: usize = args.get(1).map(|s| s.parse().unwrap()).unwrap_or(20000);
    let reg = Arc::new(new_register());
    let unit = reg.verif_register();
    let parent = reg.verif_register();
    reg.verif_update_info(parent, IngressInfo::new().with_parent(unit).with_remote_addr(addr(1)));
    let mut kids: Vec<u32> = (0..5u32).map(|k| {
        let id = reg.verif_register();
        reg.verif_update_info(id, IngressInfo::new().with_parent(parent).with_remote_addr(addr(10 + k)).with_remote_asn(inetnum::asn::Asn::from_u32(65000 + k)));
        id
    }).collect();
    kids.sort();
    // ids the writers work on: children of another parent
    let other = reg.verif_register();
    let strangers: Vec<u32> = (0..8).map(|_| reg.verif_register()).collect();
    let complete = |mut l: Vec<u32>| { l.sort(); l == kids };

    // part 1
    let (locked_tx, locked_rx) = mpsc::channel::<()>();
    let (release_tx, release_rx) = mpsc::channel::<()>();
    let r = reg.clone();
    let holder = std::thread::spawn(move || r.verif_with_write_lock(|| { let _ = locked_tx.send(()); let _ = release_rx.recv(); }));
    locked_rx.recv().unwrap();
    let (ans_tx, ans_rx) = mpsc::channel::<Vec<u32>>();
    let r = reg.clone();
    let asker = std::thread::spawn(move || { let _ = ans_tx.send(r.ids_for_parent(parent)); });
    let early = ans_rx.recv_timeout(Duration::from_millis(25)).ok();
    release_tx.send(()).unwrap();
    holder.join().unwrap();
    let late = if early.is_none() { ans_rx.recv_timeout(Duration::from_secs(5)).ok() } else { None };
    asker.join().unwrap();
    if let Some(a) = early {
        println!("incomplete ids_for_parent answered {:?} (children: {:?}) while a writer held the register's lock", a, kids);
        return;
    }
    match late {
        Some(a) if complete(a.clone()) => {}
        other => { println!("incomplete ids_for_parent after the writer left: {:?} (children: {:?})", other, kids); return; }
    }

    // part 2
    let stop = Arc::new(AtomicBool::new(false));
    let writers: Vec<_> = (0..4usize).map(|w| {
        let (r, stop, strangers) = (reg.clone(), stop.clone(), strangers.clone());
        std::thread::spawn(move || {
            let mut k = 0usize;
            while !stop.load(SeqCst) {
                let id = strangers[(w + k) % strangers.len()];
                r.verif_update_info(id, IngressInfo::new().with_parent(other).with_remote_addr(addr(100 + (k % 50) as u32)).with_name(format!("w{w}-{k}")));
                k += 1;
            }
            k
        })
    }).collect();
    let hs: Vec<_> = (0..readers).map(|_| {
        let (r, kids) = (reg.clone(), kids.clone());
        std::thread::spawn(move || -> Result<usize, String> {
            for i in 0..n {
                let mut a = r.ids_for_parent(parent);
                a.sort();
                if a != kids { return Err(format!("ids_for_parent answered {:?} (children: {:?}) while other ids were being updated", a, kids)); }
                let c = kids[i % kids.len()];
                match r.get(c) { Some(info) if info.parent_ingress == Some(parent) => {}, x => return Err(format!("get({c}) answered {:?}", x.map(|i| i.parent_ingress))) }
            }
            Ok(2 * n)
        })
    }).collect();
    let res: Vec<Result<usize, String>> = hs.into_iter().map(|h| h.join().unwrap()).collect();
    stop.store(true, SeqCst);
    let writes: usize = writers.into_iter().map(|h| h.join().unwrap()).sum();
    match res.iter().find_map(|r| r.as_ref().err()) {
        Some(e) => println!("incomplete {e}"),
        None => println!("ok {} answers, {} concurrent updates", res.iter().map(|r| *r.as_ref().unwrap()).sum::<usize>() + 1, writes),
    }
}

/// c14-race <threads> <per-thread>: concurrent register() calls; prints
/// "ok <n>" if all returned ids are distinct, else "dup <id>".
pub fn race(args: &[String]) {
    let t: usize = args.first().map(|s| s.parse().unwrap()).unwrap_or(16);
    let n: usize = args.get(1).map(|s| s.parse().unwrap()).unwrap_or(20000);
    let reg = std::sync::Arc::new(new_register());
    let hs: Vec<_> = (0..t).map(|_| { let r = reg.clone(); std::thread::spawn(move || (0..n).map(|_| r.verif_register()).collect::<Vec<u32>>()) }).collect();
    let mut all: Vec<u32> = hs.into_iter().flat_map(|h| h.join().unwrap()).collect();
    all.sort();
    for w in all.windows(2) { if w[0] == w[1] { println!("dup {}", w[0]); return; } }
    println!("ok {}", all.len());
}

/// c14-merge <rounds>: overlapping update_info calls for the SAME ids that supply DIFFERENT fields.
/// A unit, a router under it and two peers under the router are registered. Five threads work on the router's
/// and the peers' entries at once; each OWNS fields nobody else ever supplies: unit_name / filename / name /
/// desc (round k writes the value k) and, fifth thread, the identity fields (parent, address, AS, RIB view:
/// always the registered values). After every own update_info(id, field := k) the thread reads get(id):
/// its field must be k (theorem C14_update_reads_own_write: at every point of every interleaving a field
/// holds what its only writer's last completed call supplied), parent / address / AS / RIB view must be the
/// registered ones (C14_update_keeps_set_fields), and every 16th round ids_for_parent, find_existing_peer
/// and find_existing_bmp_router must still find the id (C14_lookups_stable_under_updates). At the end every
/// entry holds every thread's last value. On the code as it is every call is serialised by the write lock,
/// so the outcome does not depend on the schedule: no false alarm by construction.
/// Prints "ok ..." or "lost ...".
pub fn merge(args: &[String]) {
    use std::sync::atomic::{AtomicBool, Ordering::SeqCst};
    use std::sync::{Arc, Barrier};
    let rounds: usize = args.first().map(|s| s.parse().unwrap()).unwrap_or(20000);
    let asn = |k: u32| inetnum::asn::Asn::from_u32(65000 + k);
    let reg = Arc::new(new_register());
    let unit = reg.verif_register();
    let router = reg.verif_register();
    reg.verif_update_info(router, IngressInfo::new().with_parent(unit).with_remote_addr(addr(1)));
    let peer_a = reg.verif_register();
    reg.verif_update_info(peer_a, IngressInfo::new().with_parent(router).with_remote_addr(addr(10)).with_remote_asn(asn(1)).with_rib_type(RibType::AdjRibIn));
    let peer_b = reg.verif_register();
    reg.verif_update_info(peer_b, IngressInfo::new().with_parent(router).with_remote_addr(addr(11)).with_remote_asn(asn(2)));
    // (id, the identity it was registered with)
    let ids: Vec<(u32, IngressInfo)> = [router, peer_a, peer_b].iter().map(|id| (*id, reg.get(*id).unwrap())).collect();
    let ident = |i: &IngressInfo| (i.parent_ingress, i.remote_addr, i.remote_asn, i.rib_type.map(rib_n));
    const OWNERS: [&str; 5] = ["unit_name", "filename", "name", "desc", "identity"];
    let own_value = |w: usize, i: &IngressInfo| -> Option<String> {
        match w { 0 => i.unit_name.clone(), 1 => i.filename.as_ref().map(|p| p.to_string_lossy().to_string()), 2 => i.name.clone(), _ => i.desc.clone() }
    };
    let stop = Arc::new(AtomicBool::new(false));
    let start = Arc::new(Barrier::new(OWNERS.len()));
    let hs: Vec<_> = (0..OWNERS.len()).map(|w| {
        let (reg, ids, stop, start) = (reg.clone(), ids.clone(), stop.clone(), start.clone());
        std::thread::spawn(move || -> Result<usize, String> {
            start.wait();
            let mut n = 0usize;
            for k in 0..rounds {
                if stop.load(SeqCst) { break; }
                for (id, registered) in ids.iter() {
                    let v = format!("v{k}");
                    let upd = match w {
                        0 => IngressInfo::new().with_unit_name(v.clone()),
                        1 => IngressInfo::new().with_filename(std::path::PathBuf::from(v.clone())),
                        2 => IngressInfo::new().with_name(v.clone()),
                        3 => IngressInfo::new().with_desc(v.clone()),
                        _ => IngressInfo { parent_ingress: registered.parent_ingress, remote_addr: registered.remote_addr,
                                           remote_asn: registered.remote_asn, rib_type: registered.rib_type, ..IngressInfo::new() },
                    };
                    reg.verif_update_info(*id, upd);
                    n += 1;
                    let seen = match reg.get(*id) { Some(i) => i, None => return Err(format!("round {k}: get({id}) found nothing")) };
                    if w < 4 && own_value(w, &seen).as_deref() != Some(v.as_str()) {
                        return Err(format!("round {k}: the thread that alone supplies `{}` wrote {v} to id {id} and read back {:?} \
                                            (an update that did not supply the field changed it)", OWNERS[w], own_value(w, &seen)));
                    }
                    if ident(&seen) != ident(registered) {
                        return Err(format!("round {k}: identity of id {id} changed from {:?} to {:?}", ident(registered), ident(&seen)));
                    }
                    if k % 16 == 0 {
                        let p = registered.parent_ingress.unwrap();
                        if !reg.ids_for_parent(p).contains(id) { return Err(format!("round {k}: ids_for_parent({p}) lost id {id}")); }
                        let q = IngressInfo { parent_ingress: registered.parent_ingress, remote_addr: registered.remote_addr,
                                              remote_asn: registered.remote_asn, rib_type: registered.rib_type, ..IngressInfo::new() };
                        let found = if registered.remote_asn.is_some() { reg.find_existing_peer(&q) } else { reg.find_existing_bmp_router(&q) };
                        if found.map(|(i, _)| i) != Some(*id) { return Err(format!("round {k}: find_existing_* no longer finds id {id}")); }
                    }
                }
            }
            Ok(n)
        })
    }).collect();
    let res: Vec<Result<usize, String>> = hs.into_iter().map(|h| { let r = h.join().unwrap(); if r.is_err() { stop.store(true, SeqCst); } r }).collect();
    if let Some(e) = res.iter().find_map(|r| r.as_ref().err()) { println!("lost {e}"); return; }
    // everybody ran all rounds: every entry holds every thread's last value
    let last = format!("v{}", rounds - 1);
    for (id, registered) in ids.iter() {
        let i = reg.get(*id).unwrap();
        for w in 0..4 {
            if own_value(w, &i).as_deref() != Some(last.as_str()) {
                println!("lost at the end: `{}` of id {id} is {:?}, its only writer's last value was {last}", OWNERS[w], own_value(w, &i));
                return;
            }
        }
        if ident(&i) != ident(registered) { println!("lost at the end: identity of id {id} is {:?}", ident(&i)); return; }
    }
    let mut kids = reg.ids_for_parent(router); kids.sort();
    if kids != vec![peer_a, peer_b] || reg.ids_for_parent(unit) != vec![router] { println!("lost at the end: children {:?} / {:?}", reg.ids_for_parent(unit), kids); return; }
    println!("ok {} rounds, {} threads on {} ids, {} overlapping updates, every own field read back", rounds, OWNERS.len(), ids.len(), res.iter().map(|r| *r.as_ref().unwrap()).sum::<usize>());
}
