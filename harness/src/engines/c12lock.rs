//! c12lock: the state machine mutex of one BMP connection, observed through the HTTP endpoints that
//! share it (C12, concurrency part; model: coq/theories/Http/ConcModel.v part 2, oracle/eng_c12lock.ml).
//! Case = request kinds separated by blanks: `I` GET <api>/<ingress id> (RouterInfoApi), `L` GET <api>/
//! (RouterListApi). The requests are made while the router is idle, then while its connection task sits
//! inside `RouterHandler::process_msg` (back-pressure from downstream: `gate.update_data(..).await`
//! pending), then the back-pressure ends.
//! Observation: `idle s.. window s.. after s..`, s = HTTP status | blocked | PANIC (one per request).
pub fn run_case(line: &str) -> String { crate::engines::c12::probe_case(line) }
pub fn special(_name: &str, _args: &[String]) -> bool { false }
