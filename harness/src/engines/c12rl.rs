//! C12, engine c12rl: the BMP unit's router list (`GET /routers/?sort_by=..&sort_order=..`) over a
//! population of monitored routers. Same case grammar as oracle/eng_c12rl.ml. Every router is a REAL
//! `BmpState` machine (rotonda's `HttpFixture`, wired the way `BmpTcpIn::run` wires the unit) that is fed
//! real BMP messages (Initiation, Peer Up with / without the graceful-restart capability, Route
//! Monitoring, End-of-RIB, Peer Down - the encoders of engine `bstream`); the request goes through the
//! real `RouterListApi::process_request` under `catch_unwind`.
use rotonda::verif::bmp_http::HttpFixture;
use std::net::{IpAddr, Ipv4Addr};

fn unhex(s: &str) -> Vec<u8> {
    if s == "-" || s == "_" { return vec![] }
    (0..s.len() / 2).map(|i| u8::from_str_radix(&s[2 * i..2 * i + 2], 16).unwrap()).collect()
}

/// text of the cells of one table row
fn cells(row: &str) -> Vec<String> {
    let mut out = vec![];
    let mut rest = row;
    while let Some(i) = rest.find("<td>") {
        let after = &rest[i + 4..];
        let Some(j) = after.find("</td>") else { break };
        out.push(after[..j].to_string());
        rest = &after[j + 5..];
    }
    out
}
fn link_text(cell: &str) -> String {
    // <a href="..">text</a>
    match (cell.find("\">"), cell.rfind("</a>")) {
        (Some(i), Some(j)) if i + 2 <= j => cell[i + 2..j].to_string(),
        _ => cell.to_string(),
    }
}

fn show_page(body: &[u8], ids: &[u32]) -> String {
    let Ok(page) = std::str::from_utf8(body) else { return "200 NOT-UTF8".into() };
    let rows_claimed = page.split("Showing ").nth(1).and_then(|s| s.split(' ').next()).unwrap_or("?").to_string();
    let mut per_router: Vec<Option<String>> = vec![None; ids.len()];
    let mut extra = 0;
    for row in page.split("<tr>").skip(1) {
        if row.contains("<th>") { continue }
        let cs = cells(row);
        if cs.len() != 7 { extra += 1; continue }
        let id: Option<u32> = link_text(&cs[0]).trim().parse().ok();
        match id.and_then(|id| ids.iter().position(|x| *x == id)) {
            Some(k) if per_router[k].is_none() => {
                per_router[k] = Some(cs[5].chars().filter(|c| *c != ' ' && *c != '%').collect());
            }
            _ => extra += 1,
        }
    }
    let mut v = vec![format!("200 rows={rows_claimed}")];
    for (k, c) in per_router.iter().enumerate() {
        match c { Some(c) => v.push(format!("r{k}={c}")), None => v.push(format!("r{k}=missing")) }
    }
    if extra > 0 { v.push(format!("unexpected-rows={extra}")) }
    // the nine judged columns, each read DOWN THE PAGE (a router without TLVs shows `-`: it sorts as "-" / 0)
    let mut cols: Vec<Vec<String>> = vec![vec![]; 9];
    for row in page.split("<tr>").skip(1) {
        if row.contains("<th>") { continue }
        let cs = cells(row);
        if cs.len() != 7 { continue }
        let dash = cs[2].trim() == "-";
        let num = |s: &str| -> String { let d: String = s.chars().filter(|c| c.is_ascii_digit()).collect(); if d.is_empty() { "?".into() } else { d.parse::<u64>().map(|n| n.to_string()).unwrap_or("?".into()) } };
        if dash {
            cols[0].push("-".into()); cols[1].push("-".into());
            for c in cols.iter_mut().skip(2) { c.push("0".into()) }
            continue;
        }
        cols[0].push(link_text(&cs[2]).trim().to_string());
        cols[1].push(cs[3].trim().to_string());
        // "3/2 (66%)/1 (50%)"
        let peers: Vec<&str> = cs[5].split('/').collect();
        let count = |s: &str| -> (String, String) { match s.split_once('(') { Some((a, b)) => (num(a), num(b)), None => (num(s), "?".into()) } };
        if peers.len() == 3 {
            cols[2].push(num(peers[0]));
            let (e, epc) = count(peers[1]); let (d, dpc) = count(peers[2]);
            cols[3].push(e); cols[4].push(d); cols[5].push(epc); cols[6].push(dpc);
        } else { for c in cols.iter_mut().skip(2).take(5) { c.push("?".into()) } }
        // "0 (1/2)"
        match cs[6].split_once('(').and_then(|(_, r)| r.split_once('/')) {
            Some((sf, hd)) => { cols[7].push(num(sf)); cols[8].push(num(hd)) }
            None => { cols[7].push("?".into()); cols[8].push("?".into()) }
        }
    }
    for (j, c) in cols.iter().enumerate() { v.push(format!("c{j}={}", if c.is_empty() { "~".to_string() } else { c.join(",") })) }
    v.join(" ")
}

pub fn run_case(line: &str) -> String {
    let rt = tokio::runtime::Builder::new_current_thread().enable_all().build().unwrap();
    let mut f = HttpFixture::new("/routers/", "{sys_name}");
    let mut ids: Vec<u32> = vec![];
    let mut out: Vec<String> = vec![];
    let render = crate::engines::bstream::render;
    for op in crate::util::ops(line) {
        let k = |i: usize| -> Option<u32> { op.get(i).and_then(|t| t.parse::<usize>().ok()).and_then(|k| ids.get(k).copied()) };
        match op[0] {
            "N" | "R" => {
                let n = ids.len() as u8;
                let id = f.add_router(Some(IpAddr::V4(Ipv4Addr::new(10, 0, 0, n + 1))));
                let (nm, ds) = if op.len() >= 3 { (op[1], op[2]) } else { ("r", "d") };
                if op[0] == "R" && !rt.block_on(f.feed(id, rotonda::bgp::encode::mk_initiation_msg(nm, ds))) { out.push("FEED-FAILED".into()) }
                ids.push(id);
            }
            "I" => if let Some(id) = k(1) {
                let (nm, ds) = if op.len() >= 4 { (op[2], op[3]) } else { ("r", "d") };
                if !rt.block_on(f.feed(id, rotonda::bgp::encode::mk_initiation_msg(nm, ds))) { out.push("FEED-FAILED".into()) }
            },
            "U" => if let Some(id) = k(1) { if !rt.block_on(f.feed(id, render(&format!("U.{}.{}", op[2], op[3])))) { out.push("FEED-FAILED".into()) } },
            "A" => if let Some(id) = k(1) { if !rt.block_on(f.feed(id, render(&format!("R.{}.0.1.1+2.0.-", op[2])))) { out.push("FEED-FAILED".into()) } },
            "E" => if let Some(id) = k(1) { if !rt.block_on(f.feed(id, render(&format!("E.{}.0", op[2])))) { out.push("FEED-FAILED".into()) } },
            "D" => if let Some(id) = k(1) { if !rt.block_on(f.feed(id, render(&format!("D.{}", op[2])))) { out.push("FEED-FAILED".into()) } },
            "S" | "H" => if let Some(id) = k(1) { rt.block_on(f.report_parse_error(id, "e".into(), None, op[0] == "S")); },
            "Q" => {
                let q = unhex(op[1]);
                let uri = if op[1] == "-" { "/routers/".to_string() } else {
                    match String::from_utf8(q) { Ok(q) => format!("/routers/?{q}"), Err(_) => { out.push("rejected".into()); continue } }
                };
                if uri.parse::<rotonda::verif::http::hyper::Uri>().is_err() { out.push("rejected".into()); continue }
                let res = std::panic::catch_unwind(std::panic::AssertUnwindSafe(|| rt.block_on(f.get_list(&uri))));
                match res {
                    Err(_) => out.push("PANIC".into()),
                    Ok(None) => out.push("none".into()),
                    Ok(Some((200, body))) => out.push(show_page(&body, &ids)),
                    Ok(Some((st, _))) => out.push(format!("{st}")),
                }
            }
            _ => panic!("bad op {:?}", op),
        }
    }
    out.join(" ")
}

pub fn special(_name: &str, _args: &[String]) -> bool { false }
