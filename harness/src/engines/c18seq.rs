//! C18 (sequential): one thread, a sequence of FrimMap calls.
//! Same case grammar as oracle/eng_c18seq.ml.
use super::c18::{apply, contents, parse_op, show_ret, show_vec};
use rotonda::verif::frim::FrimMap;

pub fn run_case(line: &str) -> String {
    let map: FrimMap<u32, u32> = FrimMap::default();
    let mut out: Vec<String> = vec![];
    for op in crate::util::ops(line) {
        let op = parse_op(&op);
        out.push(show_ret(&apply(&map, &op, &|| ())));
    }
    out.push("F".into());
    out.push(show_vec(&contents(&map)));
    out.join(" ")
}

pub fn special(_name: &str, _args: &[String]) -> bool {
    false
}
