//! C18: FrimMap under a chosen interleaving. Same case grammar as
//! oracle/eng_c18.ml. Every thread of the case is a real OS thread working on
//! one shared `FrimMap<u32,u32>`; a controller releases exactly one thread at a
//! time for exactly one step. A thread parks (a) before each call, (b) at the
//! `verif-hooks` pause point at the start of every execution of the closure
//! that insert/retain/remove pass to `ArcSwap::rcu` (i.e. after the load /
//! after a failed compare-and-swap), (c) between `guard()` and iterating,
//! (d) in the default function given to `entry(k).or_insert_with(..)`, i.e.
//! after `entry()` found the key vacant and before the value is inserted (the
//! insert that follows parks at (b) like any other).
//!
//! Special entry point: `vh c18-stress <threads> <ops> <rounds> <seed>` runs
//! free-running threads and judges every recorded call/return history with a
//! linearizability checker against a BTreeMap specification.
use rotonda::verif::frim::{set_pause_hook, FrimMap};
use std::collections::{BTreeMap, HashSet};
use std::rc::Rc;
use std::sync::atomic::{AtomicBool, AtomicU64, Ordering};
use std::sync::mpsc::{channel, Receiver, Sender};
use std::sync::{Arc, Barrier};
use std::time::Duration;

#[derive(Clone, Debug, PartialEq)]
pub enum Op {
    Ins(u32, u32),
    Rem(u32),
    Retain(String, u32),
    Repl(Vec<(u32, u32)>),
    Get(u32),
    Has(u32),
    Len,
    Iter,
    Empty,
    /// `entry(k).or_insert_with(|| v)`
    Entry(u32, u32),
}

#[derive(Clone, Debug, PartialEq, Eq, Hash)]
pub enum Ret {
    Unit,
    Opt(Option<u32>),
    Bool(bool),
    Num(usize),
    List(Vec<(u32, u32)>),
    Val(u32),
}

pub fn keep(kind: &str, c: u32, k: u32, v: u32) -> bool {
    match kind {
        "kle" => k <= c,
        "kgt" => k > c,
        "kne" => k != c,
        "vle" => v <= c,
        "vgt" => v > c,
        _ => panic!("bad predicate {kind}"),
    }
}

pub fn parse_op(t: &[&str]) -> Op {
    let n = |i: usize| t[i].parse::<u32>().unwrap();
    match (t[0], t.len()) {
        ("I", 3) => Op::Ins(n(1), n(2)),
        ("R", 2) => Op::Rem(n(1)),
        ("T", 3) => Op::Retain(t[1].to_string(), n(2)),
        ("P", l) if l % 2 == 1 => Op::Repl((0..(l - 1) / 2).map(|i| (n(1 + 2 * i), n(2 + 2 * i))).collect()),
        ("G", 2) => Op::Get(n(1)),
        ("H", 2) => Op::Has(n(1)),
        ("L", 1) => Op::Len,
        ("E", 1) => Op::Iter,
        ("Z", 1) => Op::Empty,
        ("N", 3) => Op::Entry(n(1), n(2)),
        _ => panic!("bad op: {}", t.join(" ")),
    }
}

fn sorted(mut l: Vec<(u32, u32)>) -> Vec<(u32, u32)> {
    l.sort();
    l
}

pub fn show_vec(l: &[(u32, u32)]) -> String {
    let l = sorted(l.to_vec());
    format!("[{}]", l.iter().map(|(k, v)| format!("{k}:{v}")).collect::<Vec<_>>().join(","))
}

pub fn show_ret(r: &Ret) -> String {
    match r {
        Ret::Unit => "u".into(),
        Ret::Opt(None) => "n".into(),
        Ret::Opt(Some(v)) => format!("s{v}"),
        Ret::Bool(b) => if *b { "b1".into() } else { "b0".into() },
        Ret::Num(n) => format!("l{n}"),
        Ret::List(l) => show_vec(l),
        Ret::Val(v) => format!("v{v}"),
    }
}

pub fn contents(map: &FrimMap<u32, u32>) -> Vec<(u32, u32)> {
    map.guard().iter().cloned().collect()
}

/// A FrimMap built through its own API (what `replace` is given).
fn build(kvs: &[(u32, u32)]) -> FrimMap<u32, u32> {
    let m = FrimMap::default();
    for (k, v) in kvs {
        m.insert(*k, *v);
    }
    m
}

/// One call on the real map. `between` runs between `guard()` and the iteration,
/// and inside the default function of `or_insert_with` (only called if the entry is vacant).
pub fn apply(map: &FrimMap<u32, u32>, op: &Op, between: &dyn Fn()) -> Ret {
    apply_with(map, op, between, None)
}

/// `prebuilt`: the argument of replace(), if the caller built it beforehand.
pub fn apply_with(map: &FrimMap<u32, u32>, op: &Op, between: &dyn Fn(), prebuilt: Option<FrimMap<u32, u32>>) -> Ret {
    match op {
        Op::Ins(k, v) => { map.insert(*k, *v); Ret::Unit }
        Op::Rem(k) => Ret::Opt(map.remove(k)),
        Op::Retain(kind, c) => { map.retain(|k, v| keep(kind, *c, *k, *v)); Ret::Unit }
        Op::Repl(kvs) => { map.replace(prebuilt.unwrap_or_else(|| build(kvs))); Ret::Unit }
        Op::Get(k) => Ret::Opt(map.get(k)),
        Op::Has(k) => Ret::Bool(map.contains_key(k)),
        Op::Len => Ret::Num(map.len()),
        Op::Iter => {
            let g = map.guard();
            between();
            let l: Vec<(u32, u32)> = g.iter().cloned().collect();
            Ret::List(l)
        }
        Op::Empty => Ret::Bool(map.is_empty()),
        Op::Entry(k, v) => Ret::Val(map.entry(*k).or_insert_with(|| {
            between();
            *v
        })),
    }
}

/// A step that does not come back within 10 s is reported as HANG<t> (e.g. a writer blocked on a lock that a parked
/// writer holds: the model has no such step). Once that has happened in this process the following cases wait 500 ms
/// only, so that a tree in which many schedules block is reported in minutes, not hours.
static HANG_SEEN: AtomicBool = AtomicBool::new(false);

enum Report {
    /// parked inside a call; `true`: at the pause point of an rcu closure
    Parked(bool),
    Done(Ret),
}

struct Worker {
    go: Sender<()>,
    rep: Receiver<Report>,
    left: usize,
    rets: Vec<Ret>,
    /// executions of an rcu closure in the current call so far
    closure_runs: usize,
    handle: Option<std::thread::JoinHandle<()>>,
}

fn worker(map: Arc<FrimMap<u32, u32>>, ops: Vec<Op>, go: Receiver<()>, rep: Sender<Report>) {
    let go = Rc::new(go);
    let park = {
        let go = go.clone();
        let rep = rep.clone();
        move |in_closure: bool| {
            // if the controller is gone, run on freely
            if rep.send(Report::Parked(in_closure)).is_ok() {
                let _ = go.recv();
            }
        }
    };
    // the arguments of replace() are built before the pause hook is installed
    let mut prebuilt: Vec<Option<FrimMap<u32, u32>>> =
        ops.iter().map(|op| if let Op::Repl(kvs) = op { Some(build(kvs)) } else { None }).collect();
    {
        let park = park.clone();
        set_pause_hook(Some(Box::new(move |_site| park(true))));
    }
    for (i, op) in ops.iter().enumerate() {
        if go.recv().is_err() {
            break;
        }
        let r = apply_with(&map, op, &|| park(false), prebuilt[i].take());
        if rep.send(Report::Done(r)).is_err() {
            break;
        }
    }
    set_pause_hook(None);
}

pub fn run_case(line: &str) -> String {
    let mut init: Vec<(u32, u32)> = vec![];
    let mut progs: Vec<Vec<Op>> = vec![];
    let mut sched: Vec<usize> = vec![];
    let mut nthreads = 0usize;
    for item in line.split(';') {
        let t: Vec<&str> = item.split_whitespace().collect();
        if t.is_empty() {
            continue;
        }
        match t[0] {
            "i" => init.push((t[1].parse().unwrap(), t[2].parse().unwrap())),
            "p" => {
                let th: usize = t[1].parse().unwrap();
                nthreads = nthreads.max(th + 1);
                while progs.len() <= th { progs.push(vec![]); }
                progs[th].push(parse_op(&t[2..]));
            }
            "s" => {
                let th: usize = t[1].parse().unwrap();
                nthreads = nthreads.max(th + 1);
                sched.push(th);
            }
            _ => panic!("bad item: {item}"),
        }
    }
    while progs.len() < nthreads { progs.push(vec![]); }

    let map: Arc<FrimMap<u32, u32>> = Arc::new(build(&init));
    let mut ws: Vec<Worker> = progs
        .iter()
        .map(|ops| {
            let (go_tx, go_rx) = channel();
            let (rep_tx, rep_rx) = channel();
            let m = map.clone();
            let o = ops.clone();
            let h = std::thread::spawn(move || worker(m, o, go_rx, rep_tx));
            Worker { go: go_tx, rep: rep_rx, left: ops.len(), rets: vec![], closure_runs: 0, handle: Some(h) }
        })
        .collect();

    // failed compare-and-swap attempts: every execution of an rcu closure within one call but the first
    let mut failed = 0usize;
    let mut trouble: Option<String> = None;
    let mut step = |ws: &mut Vec<Worker>, t: usize, trouble: &mut Option<String>| {
        let w = &mut ws[t];
        if w.left == 0 || trouble.is_some() {
            return;
        }
        if w.go.send(()).is_err() {
            *trouble = Some(format!("DEAD{t}"));
            return;
        }
        let patience = if HANG_SEEN.load(Ordering::Relaxed) { Duration::from_millis(500) } else { Duration::from_secs(10) };
        match w.rep.recv_timeout(patience) {
            Ok(Report::Parked(in_closure)) => {
                if in_closure {
                    if w.closure_runs > 0 { failed += 1; }
                    w.closure_runs += 1;
                }
            }
            Ok(Report::Done(r)) => { w.rets.push(r); w.left -= 1; w.closure_runs = 0; }
            Err(_) => {
                HANG_SEEN.store(true, Ordering::Relaxed);
                *trouble = Some(format!("HANG{t}"))
            }
        }
    };
    for &t in &sched {
        step(&mut ws, t, &mut trouble);
    }
    for t in 0..nthreads {
        while ws[t].left > 0 && trouble.is_none() {
            step(&mut ws, t, &mut trouble);
        }
    }
    let mut out: Vec<String> = vec![];
    for (t, w) in ws.iter_mut().enumerate() {
        out.push(format!("T{t}"));
        for r in &w.rets { out.push(show_ret(r)); }
        if w.left > 0 { out.push("STUCK".into()); }
    }
    if let Some(tr) = &trouble { out.push(tr.clone()); }
    out.push("F".into());
    out.push(show_vec(&contents(&map)));
    out.push(format!("x{failed}"));
    // let the workers go (they run on freely once the channels are closed)
    for w in ws.iter_mut() {
        let (dead_tx, _) = channel();
        w.go = dead_tx;
    }
    for w in ws.iter_mut() {
        if trouble.is_none() {
            if let Some(h) = w.handle.take() { let _ = h.join(); }
        }
    }
    out.join(" ")
}

// ------------------------------------------------------------------ stress

#[derive(Clone, Debug)]
struct Rec { call: u64, ret: u64, op: Op, r: Ret, thread: usize, shown: String }

fn spec_apply(m: &mut BTreeMap<u32, u32>, op: &Op) -> Ret {
    match op {
        Op::Ins(k, v) => { m.insert(*k, *v); Ret::Unit }
        Op::Rem(k) => Ret::Opt(m.remove(k)),
        Op::Retain(kind, c) => { m.retain(|k, v| keep(kind, *c, *k, *v)); Ret::Unit }
        Op::Repl(kvs) => { m.clear(); for (k, v) in kvs { m.insert(*k, *v); } Ret::Unit }
        Op::Get(k) => Ret::Opt(m.get(k).copied()),
        Op::Has(k) => Ret::Bool(m.contains_key(k)),
        Op::Len => Ret::Num(m.len()),
        Op::Iter => Ret::List(m.iter().map(|(k, v)| (*k, *v)).collect()),
        Op::Empty => Ret::Bool(m.is_empty()),
        // one task alone: get, else insert (a recorded entry call is judged as its parts, see `stress`)
        Op::Entry(k, v) => Ret::Val(*m.entry(*k).or_insert(*v)),
    }
}

fn ret_eq(a: &Ret, b: &Ret) -> bool {
    match (a, b) {
        (Ret::List(x), Ret::List(y)) => sorted(x.clone()) == sorted(y.clone()),
        _ => a == b,
    }
}

/// Is there an order of all calls, consistent with real time (a call that
/// returned before another was made comes first), that is a legal history of
/// the sequential map? Exhaustive search with memoisation.
fn linearizable(h: &[Rec]) -> bool {
    fn go(h: &[Rec], done: u64, m: &BTreeMap<u32, u32>, seen: &mut HashSet<(u64, Vec<(u32, u32)>)>) -> bool {
        if done.count_ones() as usize == h.len() {
            return true;
        }
        let key = (done, m.iter().map(|(k, v)| (*k, *v)).collect::<Vec<_>>());
        if !seen.insert(key) {
            return false;
        }
        let min_ret = h.iter().enumerate().filter(|(i, _)| done & (1 << i) == 0).map(|(_, r)| r.ret).min().unwrap();
        for (i, r) in h.iter().enumerate() {
            if done & (1 << i) != 0 || r.call > min_ret {
                continue;
            }
            let mut m2 = m.clone();
            let got = spec_apply(&mut m2, &r.op);
            if ret_eq(&got, &r.r) && go(h, done | (1 << i), &m2, seen) {
                return true;
            }
        }
        false
    }
    assert!(h.len() <= 60);
    go(h, 0, &BTreeMap::new(), &mut HashSet::new())
}

struct Sm(u64);
impl Sm {
    fn next(&mut self) -> u64 {
        self.0 = self.0.wrapping_add(0x9E3779B97F4A7C15);
        let mut z = self.0;
        z = (z ^ (z >> 30)).wrapping_mul(0xBF58476D1CE4E5B9);
        z = (z ^ (z >> 27)).wrapping_mul(0x94D049BB133111EB);
        z ^ (z >> 31)
    }
    fn below(&mut self, n: u64) -> u64 { self.next() % n }
}

fn random_op(rng: &mut Sm, fresh: &mut u32) -> Op {
    let k = 1 + rng.below(2) as u32;
    match rng.below(100) {
        0..=22 => { *fresh += 1; Op::Ins(k, *fresh) }
        23..=52 => Op::Rem(k),
        53..=66 => { *fresh += 1; Op::Entry(k, *fresh) }
        67..=73 => Op::Get(k),
        74..=77 => Op::Has(k),
        78..=81 => Op::Len,
        82..=83 => Op::Empty,
        84..=89 => Op::Iter,
        90..=94 => Op::Retain("kne".into(), k),
        _ => { *fresh += 2; Op::Repl(vec![(1, *fresh - 1), (2, *fresh)]) }
    }
}

fn show_op(op: &Op) -> String {
    match op {
        Op::Ins(k, v) => format!("I {k} {v}"),
        Op::Rem(k) => format!("R {k}"),
        Op::Retain(kind, c) => format!("T {kind} {c}"),
        Op::Repl(kvs) => format!("P {}", kvs.iter().map(|(k, v)| format!("{k} {v}")).collect::<Vec<_>>().join(" ")),
        Op::Get(k) => format!("G {k}"),
        Op::Has(k) => format!("H {k}"),
        Op::Len => "L".into(),
        Op::Iter => "E".into(),
        Op::Empty => "Z".into(),
        Op::Entry(k, v) => format!("N {k} {v}"),
    }
}

/// c18-stress <threads> <ops-per-thread> <rounds> <seed>
fn stress(args: &[String]) {
    let arg = |i: usize, d: u64| args.get(i).map(|s| s.parse::<u64>().unwrap()).unwrap_or(d);
    let (threads, nops, rounds, seed) = (arg(0, 3) as usize, arg(1, 4) as usize, arg(2, 2000), arg(3, 1));
    let mut rng = Sm(seed);
    let mut retried_histories = 0u64; // histories in which some pair of calls overlapped
    let mut total_ops = 0u64;
    for round in 0..rounds {
        let mut fresh = 100u32;
        let progs: Vec<Vec<Op>> = (0..threads).map(|_| (0..nops).map(|_| random_op(&mut rng, &mut fresh)).collect()).collect();
        let map: Arc<FrimMap<u32, u32>> = Arc::new(FrimMap::default());
        let clock = Arc::new(AtomicU64::new(1));
        let barrier = Arc::new(Barrier::new(threads));
        let hs: Vec<_> = progs.iter().cloned().enumerate().map(|(t, ops)| {
            let (map, clock, barrier) = (map.clone(), clock.clone(), barrier.clone());
            std::thread::spawn(move || {
                barrier.wait();
                ops.into_iter().flat_map(|op| {
                    let tick = || clock.fetch_add(1, Ordering::SeqCst);
                    if let Op::Entry(k, v) = op {
                        // entry(k).or_insert_with(f) is not one atomic call (C18_linearizable, call_ok): it is judged as
                        // its parts. Occupied: a lookup that found the value returned. Vacant (f ran): a lookup that found
                        // nothing, over before f ran, and an insert(k, v) that started after f had run.
                        let call = tick();
                        let mut in_default: Option<(u64, u64)> = None;
                        let got = map.entry(k).or_insert_with(|| {
                            let lookup_over = tick();
                            std::thread::yield_now();
                            in_default = Some((lookup_over, tick()));
                            v
                        });
                        let ret = tick();
                        match in_default {
                            None => vec![Rec { call, ret, op: Op::Get(k), r: Ret::Opt(Some(got)), thread: t,
                                               shown: format!("N {k} {v}=v{got}(occupied)") }],
                            Some((lookup_over, insert_starts)) => vec![
                                Rec { call, ret: lookup_over, op: Op::Get(k), r: Ret::Opt(None), thread: t,
                                      shown: format!("N {k} {v}(lookup: vacant)") },
                                Rec { call: insert_starts, ret, op: Op::Ins(k, v), r: Ret::Unit, thread: t,
                                      shown: format!("N {k} {v}=v{got}(insert)") },
                            ],
                        }
                    } else {
                        let call = tick();
                        let r = apply(&map, &op, &|| std::thread::yield_now());
                        let ret = tick();
                        let shown = format!("{}={}", show_op(&op), show_ret(&r));
                        vec![Rec { call, ret, op, r, thread: t, shown }]
                    }
                }).collect::<Vec<Rec>>()
            })
        }).collect();
        let mut h: Vec<Rec> = hs.into_iter().flat_map(|x| x.join().unwrap()).collect();
        // when all threads are done: what is left must be a map (len and one iteration agree with the history)
        for op in [Op::Len, Op::Iter] {
            let call = clock.fetch_add(1, Ordering::SeqCst);
            let r = apply(&map, &op, &|| ());
            let ret = clock.fetch_add(1, Ordering::SeqCst);
            let shown = format!("{}={}", show_op(&op), show_ret(&r));
            h.push(Rec { call, ret, op, r, thread: threads, shown });
        }
        h.sort_by_key(|r| r.call);
        total_ops += h.len() as u64;
        if h.windows(2).any(|w| w[1].call < w[0].ret) { retried_histories += 1; }
        if !linearizable(&h) {
            let desc: Vec<String> = h.iter().map(|r| format!("t{}@{}-{}:{}", r.thread, r.call, r.ret, r.shown)).collect();
            println!("nonlinearizable round={round} history= {}", desc.join(" ; "));
            return;
        }
    }
    println!("ok rounds={rounds} ops={total_ops} overlapping={retried_histories}");
}

pub fn special(name: &str, args: &[String]) -> bool {
    if name == "c18-stress" { stress(args); true } else { false }
}
