//! bmpwire: the `pipe` engine fed with BMP frames from the proved encoder of Bmp/BmpWire.v (op `WB`, see pipe.rs);
//! same implementation side, own generator (lib/gens/bmpwiregen.py). Serves C05.
pub fn run_case(line: &str) -> String {
    super::pipe::run_case(line)
}

pub fn special(_name: &str, _args: &[String]) -> bool {
    false
}
