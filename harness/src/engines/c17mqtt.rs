//! C17, mqtt-out: runs the real `MqttRunner::run` (direct link to a gate,
//! publish queue, publish loop) with a capturing MQTT client and reports
//! what the client was handed: topic, QoS, and the payload parsed back to
//! (ingress info, record). Case grammar: oracle/eng_c17file.ml.
use super::c17file::{info_of, ip_index, ip_of, name_of, record_tok, text_of, text_tok, update_of, Ings};
use crate::util::{ops, opt_tok};
use rotonda::comms::Gate;
use rotonda::manager::{Component, Coordinator, TargetCommand, UpstreamLinkReport};
use rotonda::payload::Update;
use rotonda::roto_runtime::types::OutputStreamMessage;
use rotonda::verif::targets::mqtt::{self, Published};
use rotonda::verif::targets::smallvec::smallvec;
use serde_json::Value;
use std::sync::atomic::{AtomicU64, Ordering};

const SENTINEL_ASN: u32 = 4_294_967_294;
const PROBE_ASN: u32 = 4_294_967_293;

/// JSON of an IngressInfo -> `I<f1>,..,<f8>`
fn info_tok(v: &Value) -> Option<String> {
    if v.is_null() { return Some("-".into()); }
    let o = v.as_object()?;
    const KEYS: [&str; 8] = ["unit_name", "parent_ingress", "remote_addr", "remote_asn", "rib_type", "filename", "name", "desc"];
    if o.keys().any(|k| !KEYS.contains(&k.as_str())) { return None; }
    let s = |k: &str| match o.get(k) { None | Some(Value::Null) => Some("-".to_string()), Some(x) => x.as_str()?.strip_prefix('s').map(|x| x.to_string()) };
    let u = |k: &str| match o.get(k) { None | Some(Value::Null) => Some("-".to_string()), Some(x) => x.as_u64().map(|n| n.to_string()) };
    let addr = match o.get("remote_addr") { None | Some(Value::Null) => "-".to_string(), Some(x) => ip_index(x.as_str()?)?.to_string() };
    let rib = match o.get("rib_type") { None | Some(Value::Null) => "-".to_string(), Some(x) => match x.as_str()? { "AdjRibIn" => "0", "AdjRibOut" => "1", "LocRib" => "2", _ => return None }.to_string() };
    Some(format!("I{}", [s("unit_name")?, u("parent_ingress")?, addr, u("remote_asn")?, rib, s("filename")?, s("name")?, s("desc")?].join(",")))
}

/// probe / sentinel messages are recognised by their (otherwise unused) AS number anywhere in the payload,
/// so that a change of the payload's structure does not make the harness wait
fn has_asn(p: &Published, asn: u32) -> bool {
    String::from_utf8_lossy(&p.payload).contains(&asn.to_string())
}
fn is_sentinel(p: &Published) -> bool { has_asn(p, SENTINEL_ASN) }

fn pub_tok(p: &Published) -> String {
    let parsed = serde_json::from_slice::<Value>(&p.payload).ok().and_then(|v| {
        let a = v.as_array()?;
        if a.len() != 2 { return None; }
        Some(format!("i={} {}", info_tok(&a[0])?, record_tok(&a[1])?))
    });
    format!("P t={} q{}{} {}", text_tok(&p.topic), p.qos, if p.retain { "r" } else { "" },
        parsed.unwrap_or_else(|| format!("i=? BAD:{}", text_tok(&String::from_utf8_lossy(&p.payload)))))
}

/// Sends probe messages until one is handed to the client, i.e. the target has its client.
async fn probe(gate: &Gate, name: &str, sink: &mqtt::Sink) {
    for _ in 0..2000u32 {
        let before = sink.lock().unwrap().len();
        gate.update_data(Update::OutputStream(smallvec![OutputStreamMessage::peer_down(
            name.to_string(), "probe".into(), ip_of(0), inetnum::asn::Asn::from_u32(PROBE_ASN), None)])).await;
        for _ in 0..20 { tokio::task::yield_now().await; }
        if sink.lock().unwrap().len() > before { break; }
    }
}

static SEQ: AtomicU64 = AtomicU64::new(0);

pub fn run_case(line: &str) -> String {
    let mut name = name_of(0);
    let mut tpl = "rotonda/{id}".to_string();
    let mut qos = 2;
    let all = ops(line);
    let mut early = false;
    for op in &all {
        match op[0] {
            "early" => early = true,
            "name" => name = name_of(op[1].parse().unwrap()),
            "tpl" => tpl = text_of(op[1]),
            "qos" => qos = op[1].parse().unwrap(),
            _ => {}
        }
    }
    let client_id = format!("c17-{}-{}", std::process::id(), SEQ.fetch_add(1, Ordering::SeqCst));
    let sink = mqtt::sink_for(&client_id);
    let rt = tokio::runtime::Builder::new_current_thread().enable_all().build().unwrap();
    let (ended, complete) = rt.block_on(async {
        let mut ings = Ings::new();
        let component = Component::verif_new(&name, "mqtt-out", ings.reg.clone());
        let (gate, mut agent) = Gate::new(8);
        let link = agent.create_link();
        let (cmd_tx, cmd_rx) = tokio::sync::mpsc::channel(4);
        let coordinator = Coordinator::new(1);
        let waitpoint = coordinator.clone().track("mqtt-out".to_string());
        let (cid, t) = (client_id.clone(), tpl.clone());
        let h = tokio::spawn(async move { mqtt::run_mqtt_target(&cid, &t, qos, component, link, cmd_rx, waitpoint).await });
        let _ = gate.process_until(coordinator.wait(|_, _| {})).await;
        // Normal operation: traffic starts once the target has its MQTT client. Probe
        // messages are sent until one comes out (what is taken off the queue while
        // there is no client is discarded: known finding C17-mqtt-no-client; `early`
        // skips the wait and shows it).
        if !early { probe(&gate, &name, &sink).await; }
        for op in &all {
            match op[0] {
                "name" | "tpl" | "qos" | "fmt" | "end" | "early" => {}
                // the ingress units' side of the shared register, between the target's messages
                "ing" => {
                    let id = ings.reg.verif_register();
                    ings.reg.verif_update_info(id, info_of(&op[1..]));
                    ings.ids.push(id);
                }
                "reg" => { let id = ings.reg.verif_register(); ings.ids.push(id); }
                "G" => {
                    let id = ings.resolve(op[1]).expect("G: ingress expected");
                    ings.reg.verif_update_info(id, info_of(&op[2..]));
                }
                "R" => {
                    // at a quiet moment: everything emitted so far has been published
                    if !early { probe(&gate, &name, &sink).await; }
                    let cmd = mqtt::reconfigure_command(&client_id, &text_of(op[1]), op[2].parse().unwrap(), agent.create_link());
                    cmd_tx.send(cmd).await.ok();
                    // commands are handled one after the other: once the report is filled in, the
                    // reconfiguration (incl. connecting the new link, which needs the gate) is complete
                    let report = UpstreamLinkReport::new();
                    cmd_tx.send(TargetCommand::ReportLinks { report: report.clone() }).await.ok();
                    let _ = gate.process_until(async {
                        for round in 0..6000u32 {
                            if report.ready() { break; }
                            if round < 2000 { tokio::task::yield_now().await } else { tokio::time::sleep(std::time::Duration::from_millis(1)).await }
                        }
                        // the old link unsubscribes from a task spawned by its Drop
                        for _ in 0..50 { tokio::task::yield_now().await; }
                    }).await;
                    assert!(report.ready(), "reconfigure not handled");
                }
                _ => match update_of(op, &ings) {
                    Some(u) => gate.update_data(u).await,
                    None => panic!("bad op {:?}", op),
                },
            }
        }
        if early { probe(&gate, &name, &sink).await; }
        // a last message addressed to the target; the queue is FIFO and the
        // publish loop sequential, so once it is out everything before it is
        gate.update_data(Update::OutputStream(smallvec![OutputStreamMessage::peer_down(
            name.clone(), "end".into(), ip_of(0), inetnum::asn::Asn::from_u32(SENTINEL_ASN), None)])).await;
        let mut complete = false;
        for round in 0..6000u32 {
            if sink.lock().unwrap().last().map(is_sentinel).unwrap_or(false) { complete = true; break; }
            if round < 2000 { tokio::task::yield_now().await } else { tokio::time::sleep(std::time::Duration::from_millis(1)).await }
        }
        cmd_tx.send(TargetCommand::Terminate).await.ok();
        let r = tokio::time::timeout(std::time::Duration::from_secs(20), h).await;
        (matches!(r, Ok(Ok(Err(rotonda::comms::Terminated)))), complete)
    });
    drop(rt);
    let mut msgs = sink.lock().unwrap().clone();
    mqtt::forget_sink(&client_id);
    if complete { msgs.pop(); }
    msgs.retain(|p| !has_asn(p, PROBE_ASN));
    let mut out: Vec<String> = msgs.iter().map(pub_tok).collect();
    out.push(if !complete { "end:incomplete".into() } else if ended { "end:ok".into() } else { "end:stopped".into() });
    out.join(" ")
}

pub fn special(name: &str, args: &[String]) -> bool {
    if name != "c17-mqtt-msg" { return false; }
    // c17-mqtt-msg <template text> <name k> <msg token>: output_stream_message_to_msg directly
    let ings = Ings::new();
    let component = Component::verif_new(&name_of(args[1].parse().unwrap()), "mqtt-out", ings.reg.clone());
    match mqtt::output_stream_message_to_msg(&text_of(&args[0]), component, super::c17file::msg_of(&args[2], &ings)) {
        Some((topic, content)) => println!("{topic} {content}"),
        None => println!("not selected"),
    }
    true
}
