//! C04, second ingress path: the same UPDATE bytes wrapped in a BMP Route
//! Monitoring message and pushed through the BMP state machine (Initiation,
//! Peer Up, Route Monitoring); observed are the payloads of the Update::Bulk
//! that leaves the unit: route + status of its context (Active -> A,
//! Withdrawn -> W). Same case grammar and observation format as engine c04.
use super::c04::{framed, run_with, show_route, unhex};
use rotonda::verif::bgp::{bmp_route_monitoring, RouteStatus};

fn run_pdu(_cfg: &str, hex: &str) -> Vec<String> {
    let err = vec!["ERR".to_string()];
    let bytes = unhex(hex).expect("bad hex");
    if !framed(&bytes) {
        return err;
    }
    match bmp_route_monitoring(&bytes) {
        Err(_) => err,
        Ok(routes) => {
            let mut out = vec!["ok".to_string()];
            for (r, status) in routes.iter() {
                let kind = match status {
                    RouteStatus::Active => 'A',
                    RouteStatus::Withdrawn => 'W',
                    _ => '?',
                };
                out.push(show_route(kind, r));
            }
            out
        }
    }
}

pub fn run_case(line: &str) -> String {
    run_with(line, run_pdu)
}

pub fn special(_name: &str, _args: &[String]) -> bool {
    false
}
