//! c10bgp: the bgp-in call site. The real bgp Processor::process session loop
//! (scripted session through the guarded hook verif_filtered_session) with the
//! compiled filter installed: the UPDATEs of the case are delivered, then the
//! connection is lost. One token per update sent to the gate, in order.
//! Case grammar: `F bgp <prog|none>` then  G <tag> <attrs> <ann|-> <wd|->
//! (peer = the hook's NegotiatedConfig::dummy(): AS12345)
//! With `A <asn> <four>` as the second op the session is a REAL one: the engine plays a BGP peer of that AS over a
//! loopback TCP stream against the real `handle_connection` (routecore's Session FSM, the writer task,
//! `Processor::process`) with the filter installed (hook verif_connection_filtered::start_filtered): OPEN (My AS =
//! the AS, or AS_TRANS plus the 4-octet capability when four = 1), KEEPALIVE, the UPDATEs (AS_PATH with 2-octet AS
//! numbers when four = 0), FIN. The provenance the filter sees is then built from what the session NEGOTIATED.
//! Observation: `peer:<AS the session registered in live_sessions>` in front of the same `seq:` token.
use crate::engines::c10::{self, parse_attrs, parse_filter, plist, roto_source, update_bytes};
use crate::engines::c10rib::{payload_tok, show_osm};
use rotonda::payload::Update;
use rotonda::verif::filter as vf;

fn show_sent(sent: &[Update]) -> String {
    let toks: Vec<String> = sent.iter().map(|u| match u {
        Update::OutputStream(ms) => format!("O[{}]", ms.iter().map(show_osm).collect::<Vec<_>>().join(",")),
        Update::Bulk(ps) => format!("U[{}]", ps.iter().map(payload_tok).collect::<Vec<_>>().join(",")),
        Update::Single(p) => format!("U[{}]", payload_tok(p)),
        Update::Withdraw(id, _) => format!("w#{id}"),
        _ => "other".into(),
    }).collect();
    format!("seq:{}", toks.join(";"))
}

fn bgp_frame(ty: u8, body: &[u8]) -> Vec<u8> {
    let mut v = vec![0xffu8; 16];
    v.extend_from_slice(&((19 + body.len()) as u16).to_be_bytes());
    v.push(ty);
    v.extend_from_slice(body);
    v
}

/// OPEN (RFC 4271 4.2): version 4, My AS (AS_TRANS when the AS does not fit or the 4-octet capability is sent with a
/// 2-octet AS all the same), hold time 90, BGP id 10.0.0.9; capabilities, one optional parameter each: multiprotocol
/// IPv4/IPv6 unicast/multicast and - `four` - the 4-octet AS number capability (RFC 6793) carrying the AS.
fn open_bytes(asn: u32, four: bool) -> Vec<u8> {
    let mut caps: Vec<(u8, Vec<u8>)> = vec![(1, vec![0, 1, 0, 1]), (1, vec![0, 2, 0, 1]), (1, vec![0, 1, 0, 2]), (1, vec![0, 2, 0, 2])];
    if four { caps.push((65, asn.to_be_bytes().to_vec())); }
    let mut params = vec![];
    for (code, val) in caps {
        params.extend_from_slice(&[2, (val.len() + 2) as u8, code, val.len() as u8]);
        params.extend_from_slice(&val);
    }
    let my: u16 = if asn < 65536 { asn as u16 } else { 23456 };
    let mut body = vec![4u8];
    body.extend_from_slice(&my.to_be_bytes());
    body.extend_from_slice(&90u16.to_be_bytes());
    body.extend_from_slice(&[10, 0, 0, 9]);
    body.push(params.len() as u8);
    body.extend_from_slice(&params);
    bgp_frame(1, &body)
}

fn tcp_runtime() -> &'static tokio::runtime::Runtime {
    static RT: std::sync::OnceLock<tokio::runtime::Runtime> = std::sync::OnceLock::new();
    RT.get_or_init(|| tokio::runtime::Builder::new_multi_thread().worker_threads(2).enable_all().build().unwrap())
}

/// the session of the case over a real TCP connection
fn run_real_session(f: Option<vf::BgpInFunc>, asn: u32, four: bool, frames: Vec<Vec<u8>>) -> String {
    use rotonda::verif::bgp_session::connection as bc;
    use std::time::Duration;
    use tokio::io::{AsyncReadExt, AsyncWriteExt};
    tcp_runtime().block_on(async move {
        let listener = tokio::net::TcpListener::bind("127.0.0.1:0").await.expect("loopback");
        let addr = listener.local_addr().unwrap();
        let client = tokio::net::TcpStream::connect(addr).await.unwrap();
        let (server, peer) = listener.accept().await.unwrap();
        drop(listener);
        let _ = client.set_nodelay(true);
        // the peer is configured by its address, any AS (what the session negotiated is then all there is)
        let fx = bc::start_filtered(f, server, peer.ip(), 7, None).await;
        let (mut rd, mut wr) = client.into_split();
        // the peer reads and forgets whatever rotonda sends
        let reader = tokio::spawn(async move {
            let mut chunk = [0u8; 4096];
            loop { match rd.read(&mut chunk).await { Ok(0) | Err(_) => break, Ok(_) => {} } }
        });
        let mut ok = wr.write_all(&open_bytes(asn, four)).await.is_ok() && wr.flush().await.is_ok();
        // the loop has handled SessionNegotiated before anything else is sent
        let t0 = std::time::Instant::now();
        while t0.elapsed() < Duration::from_millis(1500) && fx.live().is_empty() && !fx.connection_finished() {
            tokio::time::sleep(Duration::from_millis(1)).await;
        }
        let live = fx.live();
        let peer_tok = match live.as_slice() {
            [] => "peer:-".to_string(),
            [(_, a)] => format!("peer:{}", a.into_u32()),
            l => format!("peer:?{}", l.len()),
        };
        ok = ok && wr.write_all(&bgp_frame(4, &[])).await.is_ok();
        for fr in frames {
            ok = ok && wr.write_all(&fr).await.is_ok() && wr.flush().await.is_ok();
        }
        // FIN: routecore queues ConnectionLost behind the UPDATEs it has handed over; the loop handles them in order
        let _ = wr.shutdown().await;
        let ended = fx.finish(Duration::from_millis(1500)).await;
        reader.abort();
        let end = match ended.outcome { Some(Ok(())) => "", Some(Err(_)) => " !panic", None => " !hung" };
        format!("{peer_tok} {}{}{}", show_sent(&ended.updates), end, if ok { "" } else { " !write" })
    })
}

pub fn run_case(line: &str) -> String {
    let ops = crate::util::ops(line);
    if ops.is_empty() { return String::new(); }
    let (kind, prog) = parse_filter(&ops[0]);
    assert!(kind == "bgp");
    if ops.len() > 1 && ops[1][0] == "A" {
        let asn: u32 = ops[1][1].parse().unwrap();
        let four = ops[1][2] == "1";
        let f = match &prog {
            Some(p) => match c10::compile(&roto_source(&kind, p)) { Ok(mut s) => s.bgp_in(), Err(e) => return format!("COMPILE-ERROR {}", e.replace('\n', " ")) },
            None => None,
        };
        let mut frames = vec![];
        for op in &ops[2..] {
            assert!(op[0] == "G");
            let mut a = parse_attrs(op[2]);
            a.tag = op[1].parse().unwrap();
            frames.push(update_bytes(&a, &plist(op[3]), &plist(op[4]), four).to_vec());
        }
        return run_real_session(f, asn, four, frames);
    }
    let rt = tokio::runtime::Builder::new_current_thread().enable_all().build().unwrap();
    let _g = rt.enter();
    let f = match &prog {
        Some(p) => match c10::compile(&roto_source(&kind, p)) { Ok(mut s) => s.bgp_in(), Err(e) => return format!("COMPILE-ERROR {}", e.replace('\n', " ")) },
        None => None,
    };
    let mut msgs = vec![];
    for op in &ops[1..] {
        assert!(op[0] == "G");
        let mut a = parse_attrs(op[2]);
        a.tag = op[1].parse().unwrap();
        let bytes = update_bytes(&a, &plist(op[3]), &plist(op[4]), true);
        msgs.push(routecore::bgp::message::UpdateMessage::from_octets(bytes, &routecore::bgp::message::SessionConfig::modern()).unwrap());
    }
    let sent = rt.block_on(vf::verif_filtered_session(f, 7, msgs));
    show_sent(&sent)
}

pub fn special(_name: &str, _args: &[String]) -> bool { false }
