//! c10bgp: the bgp-in call site. The real bgp Processor::process session loop
//! (scripted session through the guarded hook verif_filtered_session) with the
//! compiled filter installed: the UPDATEs of the case are delivered, then the
//! connection is lost. One token per update sent to the gate, in order.
//! Case grammar: `F bgp <prog|none>` then  G <tag> <attrs> <ann|-> <wd|->
//! (peer = the hook's NegotiatedConfig::dummy(): AS12345)
use crate::engines::c10::{self, parse_attrs, parse_filter, plist, roto_source, update_bytes};
use crate::engines::c10rib::{payload_tok, show_osm};
use rotonda::payload::Update;
use rotonda::verif::filter as vf;

pub fn run_case(line: &str) -> String {
    let ops = crate::util::ops(line);
    if ops.is_empty() { return String::new(); }
    let (kind, prog) = parse_filter(&ops[0]);
    assert!(kind == "bgp");
    let rt = tokio::runtime::Builder::new_current_thread().enable_all().build().unwrap();
    let _g = rt.enter();
    let f = match &prog {
        Some(p) => match c10::compile(&roto_source(&kind, p)) { Ok(mut s) => s.bgp_in(), Err(e) => return format!("COMPILE-ERROR {}", e.replace('\n', " ")) },
        None => None,
    };
    let mut msgs = vec![];
    for op in &ops[1..] {
        assert!(op[0] == "G");
        let mut a = parse_attrs(op[2]);
        a.tag = op[1].parse().unwrap();
        let bytes = update_bytes(&a, &plist(op[3]), &plist(op[4]), true);
        msgs.push(routecore::bgp::message::UpdateMessage::from_octets(bytes, &routecore::bgp::message::SessionConfig::modern()).unwrap());
    }
    let sent = rt.block_on(vf::verif_filtered_session(f, 7, msgs));
    let toks: Vec<String> = sent.iter().map(|u| match u {
        Update::OutputStream(ms) => format!("O[{}]", ms.iter().map(show_osm).collect::<Vec<_>>().join(",")),
        Update::Bulk(ps) => format!("U[{}]", ps.iter().map(payload_tok).collect::<Vec<_>>().join(",")),
        Update::Single(p) => format!("U[{}]", payload_tok(p)),
        Update::Withdraw(id, _) => format!("w#{id}"),
        _ => "other".into(),
    }).collect();
    format!("seq:{}", toks.join(";"))
}

pub fn special(_name: &str, _args: &[String]) -> bool { false }
