//! ribquery (C11): a real RibUnitRunner is populated through hand-made BGP
//! UPDATEs (UpdateMessage -> bgp_tcp_in process_update -> Update::Bulk ->
//! RibUnitRunner::process_update), then the real PrefixesApi answers GET
//! requests. Same case grammar as oracle/eng_ribquery.ml:
//!   L v4 v6                      query limits the unit starts with (the API object is built afterwards; default 8 19)
//!   R v4 v6                      the unit is reconfigured while the API object exists: the new limits are stored
//!                                into the Arc<ArcSwap<QueryLimits>> the runner shares with its PrefixesApi
//!                                (what RibUnitRunner::run does on GateStatus::Reconfiguring); the API is NOT rebuilt
//!   P k asn|-|x                  peer k: registered with remote AS / without / not registered
//!   A k fam addr/len tag path comms   announce (fam 0 v4u 1 v6u 2 v4m 3 v6m; addr hex;
//!                                     path: '-' or comma list of ASNs, 's' = an AS_SET segment, 'n' = the AS_SEQUENCE
//!                                     segment ends here (the next ASN starts another one);
//!                                     comms: '-' (no community attribute) or items separated by '/', one per
//!                                     community-carrying attribute, in the order they get in the UPDATE:
//!                                     `u32,u32,..` = COMMUNITIES (decimal), `K=hex,hex,..` with K = s COMMUNITIES(8)
//!                                     e EXTENDED COMMUNITIES(16) l LARGE_COMMUNITY(32) x IPv6 extended(25), each
//!                                     member as its 8/16/24/40 hex digits; the item `*` = where ORIGIN, AS_PATH,
//!                                     NEXT_HOP, MED stand (default: in front of the community attributes))
//!   W k fam addr/len             withdraw one prefix
//!   D k fam|-                    Update::Withdraw(id, family?) (session lost)
//!   Q af addr/len rawquery|-     GET /prefixes/<prefix>[?rawquery]   (af 4|6)
//!   G method path rawquery|-     any other request (debugging aid only: not in the oracle's grammar)
//! Observation per op: '-' for population ops; for requests
//!   <status>[:d[entries]:l[entries]|l-:m[entries]|m-]   entries sorted, `fam:addr/len@pK=<A|W>tag`
use crate::util::ops;
use bytes::Bytes;
use rotonda::ingress::{IngressInfo, Register};
use rotonda::payload::Update;
use rotonda::roto_runtime::types::{PeerRibType, Provenance};
use rotonda::verif::ribquery::hyper::{body, Body, Method, Request};
use rotonda::verif::ribquery::{prefixes_api_shared, reconfigure_limits, PrefixesApi, ProcessRequest, RibUnitRunner};
use routecore::bgp::message::{SessionConfig, UpdateMessage};
use routecore::bgp::types::AfiSafiType;
use std::collections::BTreeMap;
use std::net::{IpAddr, Ipv4Addr, Ipv6Addr};
use std::sync::Arc;

#[derive(Clone, Copy, PartialEq, Eq, Debug)]
pub struct Pfx { pub v6: bool, pub addr: u128, pub len: u8 }

pub fn parse_pfx(v6: bool, tok: &str) -> Pfx {
    let (a, l) = tok.split_once('/').expect("addr/len");
    Pfx { v6, addr: u128::from_str_radix(a, 16).expect("hex addr"), len: l.parse().expect("len") }
}

impl Pfx {
    fn ip(&self) -> IpAddr {
        if self.v6 { IpAddr::V6(Ipv6Addr::from(self.addr)) } else { IpAddr::V4(Ipv4Addr::from(self.addr as u32)) }
    }
    /// the text a client would put in the URL
    fn url(&self) -> String { format!("{}/{}", self.ip(), self.len) }
    fn nlri(&self) -> Vec<u8> {
        let n = (self.len as usize + 7) / 8;
        let bytes: Vec<u8> = if self.v6 { self.addr.to_be_bytes().to_vec() } else { (self.addr as u32).to_be_bytes().to_vec() };
        let mut v = vec![self.len];
        v.extend_from_slice(&bytes[..n]);
        v
    }
    fn show(&self) -> String {
        if self.v6 { format!("6:{:032x}/{}", self.addr, self.len) } else { format!("4:{:08x}/{}", self.addr, self.len) }
    }
}

fn attr(flags: u8, code: u8, val: &[u8]) -> Vec<u8> {
    let mut v = vec![];
    if val.len() > 255 {
        v.extend_from_slice(&[flags | 0x10, code]);
        v.extend_from_slice(&(val.len() as u16).to_be_bytes());
    } else {
        v.extend_from_slice(&[flags, code, val.len() as u8]);
    }
    v.extend_from_slice(val);
    v
}

fn afi_safi(fam: u32) -> (u16, u8) {
    match fam { 0 => (1, 1), 1 => (2, 1), 2 => (1, 2), _ => (2, 2) }
}

fn finish(body: Vec<u8>) -> Bytes {
    let mut v = vec![0xffu8; 16];
    v.extend_from_slice(&((19 + body.len()) as u16).to_be_bytes());
    v.push(2);
    v.extend_from_slice(&body);
    Bytes::from(v)
}

fn hex_octets(h: &str) -> Vec<u8> {
    assert!(h.len() % 2 == 0, "even number of hex digits");
    (0..h.len() / 2).map(|i| u8::from_str_radix(&h[2 * i..2 * i + 2], 16).expect("hex")).collect()
}

/// one community-carrying attribute of the case line: `u32,u32,..` (COMMUNITIES, decimal) or
/// `K=hex,hex,..` with K = s (COMMUNITIES 8) e (EXTENDED COMMUNITIES 16) l (LARGE_COMMUNITY 32)
/// x (IPv6 address specific extended communities 25); the hex digits are the octets of a member
fn community_attr(item: &str) -> Vec<u8> {
    match item.split_once('=') {
        None => {
            let mut cs: Vec<u8> = vec![];
            for c in item.split(',') { cs.extend_from_slice(&c.parse::<u32>().expect("community").to_be_bytes()); }
            attr(0xc0, 8, &cs)
        }
        Some((k, vals)) => {
            let (code, size) = match k { "s" => (8u8, 4usize), "e" => (16, 8), "l" => (32, 12), "x" => (25, 20), _ => panic!("community kind {k}") };
            let mut cs: Vec<u8> = vec![];
            for v in vals.split(',').filter(|v| !v.is_empty()) {
                let o = hex_octets(v);
                assert_eq!(o.len(), size, "member size of community kind {k}");
                cs.extend(o);
            }
            attr(0xc0, code, &cs)
        }
    }
}

/// an UPDATE announcing one prefix. `comms`: '-' or items separated by '/', in the order they get
/// in the UPDATE; the item `*` stands for the block ORIGIN, AS_PATH, NEXT_HOP, MED (without it
/// that block comes first); an MP_REACH_NLRI is always the last attribute
pub fn announce_bytes(fam: u32, p: &Pfx, tag: u32, path: &str, comms: &str) -> Bytes {
    let mut pas: Vec<u8> = vec![];
    let items: Vec<&str> = if comms == "-" { vec![] } else { comms.split('/').collect() };
    let (before, after): (Vec<&str>, Vec<&str>) = match items.iter().position(|i| *i == "*") {
        Some(k) => (items[..k].to_vec(), items[k + 1..].to_vec()),
        None => (vec![], items.clone()),
    };
    for item in &before { pas.extend(community_attr(item)); }
    pas.extend(attr(0x40, 1, &[0])); // ORIGIN igp
    // AS_PATH: runs of ASNs become AS_SEQUENCE segments, 's' an AS_SET {64999}, 'n' cuts a run in two segments
    let mut segs: Vec<u8> = vec![];
    if path != "-" {
        let mut run: Vec<u32> = vec![];
        let flush = |run: &mut Vec<u32>, segs: &mut Vec<u8>| {
            if !run.is_empty() {
                segs.push(2);
                segs.push(run.len() as u8);
                for a in run.iter() { segs.extend_from_slice(&a.to_be_bytes()); }
                run.clear();
            }
        };
        for h in path.split(',') {
            if h == "s" {
                flush(&mut run, &mut segs);
                segs.extend_from_slice(&[1, 1]);
                segs.extend_from_slice(&64999u32.to_be_bytes());
            } else if h == "n" {
                flush(&mut run, &mut segs); // the sequence goes on in a new AS_SEQUENCE segment
            } else {
                run.push(h.parse().expect("asn"));
            }
        }
        flush(&mut run, &mut segs);
    }
    pas.extend(attr(0x40, 2, &segs));
    if fam == 0 { pas.extend(attr(0x40, 3, &[10, 0, 0, 1])); }
    pas.extend(attr(0x80, 4, &tag.to_be_bytes())); // MED carries the announcement's tag
    for item in &after { pas.extend(community_attr(item)); }
    let mut nlri: Vec<u8> = vec![];
    if fam == 0 {
        nlri = p.nlri();
    } else {
        let (afi, safi) = afi_safi(fam);
        let mut mp: Vec<u8> = vec![];
        mp.extend_from_slice(&afi.to_be_bytes());
        mp.push(safi);
        if afi == 1 { mp.push(4); mp.extend_from_slice(&[10, 0, 0, 1]); }
        else { mp.push(16); mp.extend_from_slice(&Ipv6Addr::new(0x2001, 0xdb8, 0, 0, 0, 0, 0, 1).octets()); }
        mp.push(0);
        mp.extend(p.nlri());
        pas.extend(attr(0x80, 14, &mp));
    }
    let mut body: Vec<u8> = vec![0, 0];
    body.extend_from_slice(&(pas.len() as u16).to_be_bytes());
    body.extend(pas);
    body.extend(nlri);
    finish(body)
}

/// an UPDATE withdrawing one prefix
pub fn withdraw_bytes(fam: u32, p: &Pfx) -> Bytes {
    let mut body: Vec<u8> = vec![];
    if fam == 0 {
        let n = p.nlri();
        body.extend_from_slice(&(n.len() as u16).to_be_bytes());
        body.extend(n);
        body.extend_from_slice(&[0, 0]);
    } else {
        let (afi, safi) = afi_safi(fam);
        let mut mp: Vec<u8> = vec![];
        mp.extend_from_slice(&afi.to_be_bytes());
        mp.push(safi);
        mp.extend(p.nlri());
        let pas = attr(0x80, 15, &mp);
        body.extend_from_slice(&[0, 0]);
        body.extend_from_slice(&(pas.len() as u16).to_be_bytes());
        body.extend(pas);
    }
    finish(body)
}

struct World {
    reg: Arc<Register>,
    rib: RibUnitRunner,
    api: Option<PrefixesApi>,
    limits: (u8, u8),
    peers: BTreeMap<u32, u32>, // k -> ingress id
    rt: tokio::runtime::Runtime,
    raw: bool,
}

impl World {
    fn new() -> World {
        let rt = tokio::runtime::Builder::new_current_thread().enable_all().build().unwrap();
        let reg = Arc::new(rotonda::verif::ingress::new_register());
        let (rib, _agent) = { let _g = rt.enter(); RibUnitRunner::verif_new(reg.clone()) };
        World { reg, rib, api: None, limits: (8, 19), peers: BTreeMap::new(), rt, raw: false }
    }
    fn peer(&mut self, k: u32) -> u32 {
        // a peer never declared with P is an id the register does not know
        *self.peers.entry(k).or_insert(800_000 + k)
    }
    fn peer_name(&self, id: u64) -> String {
        match self.peers.iter().find(|(_, v)| **v as u64 == id) { Some((k, _)) => format!("p{k}"), None => format!("?{id}") }
    }
    fn apply(&mut self, u: Update) {
        let rib = &self.rib;
        self.rt.block_on(async { rib.verif_process_update(u).await }).unwrap();
    }
    fn feed(&mut self, k: u32, bytes: Bytes) {
        let id = self.peer(k);
        let msg = UpdateMessage::from_octets(bytes, &SessionConfig::modern()).expect("hand-made UPDATE parses");
        let ip = IpAddr::V4(Ipv4Addr::new(203, 0, 113, k as u8));
        let prov = Provenance::for_bmp(id, ip, inetnum::asn::Asn::from_u32(64500 + k), ip, [0; 9], PeerRibType::InPre);
        let u = self.rt.block_on(rotonda::verif::bgp::verif_process_update(msg, prov)).expect("process_update");
        self.apply(u);
    }
    fn api(&mut self) -> &PrefixesApi {
        if self.api.is_none() {
            // wired as RibUnitRunner::new does: the limits cell is the runner's own
            self.api = Some(prefixes_api_shared(&self.rib, "/prefixes/", self.limits.0, self.limits.1, self.reg.clone()));
        }
        self.api.as_ref().unwrap()
    }
    fn request(&mut self, method: &str, path_and_query: &str) -> (Option<u16>, String) {
        let req = match Request::builder().method(Method::from_bytes(method.as_bytes()).unwrap()).uri(path_and_query).body(Body::empty()) {
            Ok(r) => r,
            Err(_) => return (None, "bad-uri".into()),
        };
        self.api();
        let api = self.api.as_ref().unwrap();
        let res = self.rt.block_on(async { api.process_request(&req).await });
        match res {
            None => (None, String::new()),
            Some(r) => {
                let st = r.status().as_u16();
                let b = self.rt.block_on(async { body::to_bytes(r.into_body()).await }).unwrap();
                (Some(st), String::from_utf8_lossy(&b).into_owned())
            }
        }
    }
}

fn json_pfx(s: &str) -> String {
    match s.split_once('/') {
        Some((a, l)) => match a.parse::<IpAddr>() {
            Ok(IpAddr::V4(a)) => format!("4:{:08x}/{}", u32::from(a), l),
            Ok(IpAddr::V6(a)) => format!("6:{:032x}/{}", u128::from(a), l),
            Err(_) => format!("?{s}"),
        },
        None => format!("?{s}"),
    }
}

fn tag_of(attrs: &serde_json::Value) -> String {
    if let Some(arr) = attrs.as_array() {
        for item in arr {
            if let Some(m) = item.get("multiExitDisc") { return m.to_string(); }
        }
    }
    "?".into()
}

fn section(w: &World, v: Option<&serde_json::Value>) -> Option<String> {
    let arr = v?.as_array()?;
    let mut es: Vec<String> = arr.iter().map(|e| {
        let pfx = e.get("prefix").and_then(|p| p.as_str()).map(json_pfx).unwrap_or("?".into());
        let id = e.get("ingress_id").and_then(|p| p.as_u64()).unwrap_or(u64::MAX);
        let st = match e.get("status").and_then(|p| p.as_str()) { Some("active") => "A", Some("withdrawn") => "W", _ => "?" };
        format!("{}@{}={}{}", pfx, w.peer_name(id), st, tag_of(e.get("attributes").unwrap_or(&serde_json::Value::Null)))
    }).collect();
    es.sort();
    Some(es.join(","))
}

fn show_answer(w: &World, st: Option<u16>, body: &str) -> String {
    match st {
        None => if body.is_empty() { "none".into() } else { body.to_string() },
        Some(200) => {
            let v: serde_json::Value = match serde_json::from_str(body) { Ok(v) => v, Err(_) => return "200:dump".into() };
            let d = section(w, v.get("data")).map(|s| format!("d[{s}]")).unwrap_or("d?".into());
            let inc = v.get("included");
            let l = section(w, inc.and_then(|i| i.get("lessSpecifics"))).map(|s| format!("l[{s}]")).unwrap_or("l-".into());
            let m = section(w, inc.and_then(|i| i.get("moreSpecifics"))).map(|s| format!("m[{s}]")).unwrap_or("m-".into());
            format!("200:{d}:{l}:{m}")
        }
        Some(c) => c.to_string(),
    }
}

fn step(w: &mut World, op: &[&str]) -> String {
    let n = |i: usize| op[i].parse::<u32>().unwrap();
    match op[0] {
        "L" => { w.limits = (n(1) as u8, n(2) as u8); w.api = None; "-".into() }
        "R" => {
            // the API object exists before the limits change, and survives the change
            w.api();
            w.limits = (n(1) as u8, n(2) as u8);
            reconfigure_limits(&w.rib, w.limits.0, w.limits.1);
            "-".into()
        }
        "P" => {
            let k = n(1);
            if op[2] == "x" { w.peers.insert(k, 800_000 + k); }
            else {
                let id = w.reg.verif_register();
                let mut i = IngressInfo::new();
                if op[2] != "-" { i.remote_asn = Some(inetnum::asn::Asn::from_u32(op[2].parse().unwrap())); }
                i.name = Some(format!("peer{k}"));
                w.reg.verif_update_info(id, i);
                w.peers.insert(k, id);
            }
            "-".into()
        }
        "A" => {
            let fam = n(2);
            let p = parse_pfx(fam % 2 == 1, op[3]);
            w.feed(n(1), announce_bytes(fam, &p, n(4), op[5], op[6]));
            "-".into()
        }
        "W" => {
            let fam = n(2);
            let p = parse_pfx(fam % 2 == 1, op[3]);
            w.feed(n(1), withdraw_bytes(fam, &p));
            "-".into()
        }
        "D" => {
            let id = w.peer(n(1));
            let fam = if op[2] == "-" { None } else {
                Some(match n(2) { 0 => AfiSafiType::Ipv4Unicast, 1 => AfiSafiType::Ipv6Unicast, 2 => AfiSafiType::Ipv4Multicast, _ => AfiSafiType::Ipv6Multicast })
            };
            w.apply(Update::Withdraw(id, fam));
            "-".into()
        }
        "Q" | "G" => {
            let (method, uri) = if op[0] == "Q" {
                let p = parse_pfx(op[1] == "6", op[2]);
                ("GET", if op[3] == "-" { format!("/prefixes/{}", p.url()) } else { format!("/prefixes/{}?{}", p.url(), op[3]) })
            } else {
                (op[1], if op[3] == "-" { op[2].to_string() } else { format!("{}?{}", op[2], op[3]) })
            };
            // a panicking handler is an observation of that request, not of the whole case
            let r = std::panic::catch_unwind(std::panic::AssertUnwindSafe(|| w.request(method, &uri)));
            let (st, body) = match r { Ok(x) => x, Err(_) => return "PANIC".into() };
            if w.raw { eprintln!("{method} {uri} -> {st:?}\n{body}"); }
            show_answer(w, st, &body)
        }
        _ => panic!("bad op {:?}", op),
    }
}

pub fn run_case(line: &str) -> String {
    let mut w = World::new();
    w.raw = std::env::var("VH_DEBUG").is_ok();
    let out: Vec<String> = ops(line).iter().map(|op| step(&mut w, op)).collect();
    out.join(" ")
}

pub fn special(_name: &str, _args: &[String]) -> bool { false }
