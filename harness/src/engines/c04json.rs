//! C04, the rendered form: what a user sees of a route's attributes
//! ("HTTP GET <rib>/<prefix>", mqtt-out, file-out all serialise the route's
//! `RotondaPaMap` with serde): the UPDATE is exploded by the real
//! `explode_announcements` / `explode_withdrawals`, the attribute map of every
//! announced route is rendered with `serde_json`, and the abstract shape of
//! that JSON is printed.
//! Case grammar as engine c04: PDUs separated by ';', each `<s|w><m|l> <hex> [tag]`.
//! Observation per PDU: `|` then `ERR`, or `ok -` (no announcement, so no
//! attribute map is rendered), or `ok k:<kinds> c:<communities>` where
//!   kinds       = the type codes of the array elements that are path attributes, in array order
//!                 (`-` if none); an element routecore calls `invalid`/`unimplemented` counts with its type code
//!   communities = the members of the `communities` element, as <s|e|l|x><hex of the 4|8|12|20 wire octets>,
//!                 sorted (`-` if there is no such element).
//! If the routes of one UPDATE do not all render the same, `!differ` is appended.
use super::c04::{framed, run_with, unhex};
use bytes::Bytes;
use rotonda::verif::bgp::{explode_announcements, explode_withdrawals};
use routecore::bgp::message::{SessionConfig, UpdateMessage};
use serde_json::Value;

fn kind_of_key(k: &str, v: &Value) -> Option<u64> {
    Some(match k {
        "origin" => 1,
        "asPath" => 2,
        "conventionalNextHop" => 3,
        "multiExitDisc" => 4,
        "localPref" => 5,
        "atomicAggregate" => 6,
        "aggregator" => 7,
        "originatorId" => 9,
        "clusterList" => 10,
        "as4Path" => 17,
        "as4Aggregator" => 18,
        "connector" => 20,
        "asPathLimit" => 21,
        "otc" => 35,
        "attrSet" => 128,
        "reserved" => 255,
        "unimplemented" => v.get("type_code")?.as_u64()?,
        "invalid" => v.as_array()?.get(1)?.as_u64()?,
        // never rendered as elements of their own: their members go to `communities`
        "standardCommunities" => 8,
        "extendedCommunities" => 16,
        "ipv6ExtendedCommunities" => 25,
        "largeCommunities" => 32,
        _ => return None,
    })
}

fn field(s: &str) -> Option<(u64, usize)> {
    let h = s.strip_prefix("0x").or_else(|| s.strip_prefix("0X"))?;
    Some((u64::from_str_radix(h, 16).ok()?, h.len()))
}

fn be(v: u64, n: usize) -> String {
    (0..n).rev().map(|i| format!("{:02x}", (v >> (8 * i)) & 0xff)).collect()
}

/// the wire octets of one member of the `communities` element
fn community(v: &Value) -> Option<String> {
    if let Some(a) = v.as_array() {
        // IPv6 address specific extended community: the 20 octets as numbers
        if a.len() != 20 { return None; }
        let mut s = String::from("x");
        for b in a { s.push_str(&format!("{:02x}", u8::try_from(b.as_u64()?).ok()?)); }
        return Some(s);
    }
    let fs: Vec<(u64, usize)> = v.get("rawFields")?.as_array()?.iter().map(|f| f.as_str().and_then(field)).collect::<Option<_>>()?;
    match v.get("type")?.as_str()? {
        "standard" => match fs.len() {
            1 => Some(format!("s{}", be(fs[0].0, 4))),
            2 if fs[0].0 < 65536 && fs[1].0 < 65536 => Some(format!("s{}{}", be(fs[0].0, 2), be(fs[1].0, 2))),
            _ => None,
        },
        "large" if fs.len() == 3 && fs.iter().all(|f| f.0 < 1 << 32) => Some(format!("l{}{}{}", be(fs[0].0, 4), be(fs[1].0, 4), be(fs[2].0, 4))),
        "extended" => {
            // fixed-width fields: two hex digits per octet
            let s: String = fs.iter().map(|(v, digits)| be(*v, digits / 2)).collect();
            if s.len() == 16 && fs.iter().all(|f| f.1 % 2 == 0) { Some(format!("e{s}")) } else { None }
        }
        _ => None,
    }
}

pub(crate) fn shape(v: &Value) -> String {
    let Some(arr) = v.as_array() else { return "?not-an-array".into() };
    let mut kinds: Vec<String> = vec![];
    let mut comms: Option<Vec<String>> = None;
    for item in arr {
        let Some(o) = item.as_object() else { kinds.push("?".into()); continue };
        if o.len() != 1 { kinds.push("?".into()); continue }
        let (k, val) = o.iter().next().unwrap();
        if k == "communities" {
            let mut cs: Vec<String> = match val.as_array() {
                Some(a) => a.iter().map(|c| community(c).unwrap_or_else(|| "?".into())).collect(),
                None => vec!["?".into()],
            };
            if comms.is_some() { cs.push("!second-communities-element".into()); }
            cs.sort();
            comms = Some(cs);
        } else {
            kinds.push(kind_of_key(k, val).map(|n| n.to_string()).unwrap_or_else(|| format!("?{k}")));
        }
    }
    format!(
        "k:{} c:{}",
        if kinds.is_empty() { "-".into() } else { kinds.join(",") },
        match comms { None => "-".into(), Some(c) => c.join(",") }
    )
}

fn run_pdu(cfg: &str, hex: &str) -> Vec<String> {
    let err = vec!["ERR".to_string()];
    let bytes = unhex(hex).expect("bad hex");
    if !framed(&bytes) {
        return err;
    }
    let sc = if cfg.ends_with('l') { SessionConfig::legacy() } else { SessionConfig::modern() };
    let upd = match UpdateMessage::from_octets(Bytes::from(bytes), &sc) {
        Ok(u) => u,
        Err(_) => return err,
    };
    let reach = match explode_announcements(&upd) {
        Ok(r) => r,
        Err(_) => return err,
    };
    if explode_withdrawals(&upd).is_err() {
        return err;
    }
    let mut out = vec!["ok".to_string()];
    let shapes: Vec<String> = reach
        .iter()
        .map(|r| match serde_json::to_value(r.rotonda_pamap()) {
            Ok(v) => shape(&v),
            Err(_) => "?serialize-error c:?".into(),
        })
        .collect();
    match shapes.first() {
        None => out.push("-".into()),
        Some(s) => {
            out.extend(s.split(' ').map(|t| t.to_string()));
            if shapes.iter().any(|x| x != s) {
                out.push("!differ".into());
            }
        }
    }
    out
}

pub fn run_case(line: &str) -> String {
    run_with(line, run_pdu)
}

pub fn special(name: &str, args: &[String]) -> bool {
    if name == "c04json-raw" {
        // debugging aid: vh c04json-raw <m|l> <hex> prints the JSON itself
        let bytes = unhex(&args[1]).expect("bad hex");
        let sc = if args[0].ends_with('l') { SessionConfig::legacy() } else { SessionConfig::modern() };
        let upd = UpdateMessage::from_octets(Bytes::from(bytes), &sc).expect("from_octets");
        for r in explode_announcements(&upd).expect("explode").iter().take(1) {
            println!("{}", serde_json::to_string(r.rotonda_pamap()).unwrap());
        }
        return true;
    }
    false
}
