//! bgprx: hostile bytes on a BGP connection (C06, BGP receiver). The engine plays a BGP
//! peer over a REAL loopback TCP stream against the REAL `handle_connection` of
//! bgp_tcp_in/router_handler.rs (routecore's Session FSM + the writer task +
//! `Processor::process`), started as `accept_config` of unit.rs starts it (facade
//! rotonda::verif::bgp_session::connection, hooks `start_with` / `finish`).
//! Case grammar (same as oracle/eng_bgprx.ml), ops separated by `;`:
//!   T                 full mode: every update that left the gate is printed (the generator vouches that
//!                     the schedule is deterministic: an `S` in front of everything that ends the session early)
//!   A <asn|-> <hold|-> <dup>
//!                     the peer's configuration: remote_asn (`-` = any AS: inexact configuration, DelayOpen on),
//!                     hold_time, dup = 1: live_sessions already holds this peer's key (AS 65001)
//!   <tag> <hex>       the peer writes these octets (one write + flush); the tag is the generator's label
//!                     for the frame (o OPEN, k KEEPALIVE, u UPDATE of the proved encoder, n NOTIFICATION,
//!                     r ROUTE-REFRESH, x a frame the FSM refuses, O an OPEN after the handshake, s a header whose
//!                     length field is below 18, h a partial frame, b anything else); the implementation ignores it
//!   S <n>             wait (at most 1.5 s) until n updates have left the gate
//!   L                 wait (at most 1.5 s) until the session has registered itself in live_sessions (or has ended)
//!   P <ms>            pause
//!   R0                the peer resets the connection before `handle_connection` has started (nothing else is sent)
//!   C | R | Z <ms>    the end: FIN | RST (SO_LINGER 0; 2 ms after the last write, so that the connection task has
//!                     started) | stay connected and silent for <ms> ms, then FIN.
//!                     A case without an end op ends with C (every subsequence of a case is a case).
//! Observation:
//!   P:<-|where>       a panic in the connection task or a task it spawned (canonical location)
//!   end:<0|1>         `handle_connection` returned within the watchdog (1.5 s after the peer's end)
//!   live:<-|keys>     live_sessions afterwards (`peer` = AS65001@127.0.0.1, `?..` anything else)
//!   fin:<w|-|BAD:..>  w = every update but the last is a Bulk of routes of the session's own ingress id and the
//!                     last is Withdraw(session id, None); - = no update at all
//!   z:<0|1>           only after Z: the connection task was still running at the end of the silence
//! and in full mode ` | ` + one token per update: `u:[<route>,..]` (routes as engine c04bgp shows them: W.. withdrawn
//! first, then A..) or `w:s`.
use crate::engines::c04::{show_route, unhex};
use crate::util::ops;
use rotonda::payload::Update;
use rotonda::roto_runtime::types::RouteContext;
use rotonda::verif::bgp_session::connection as bc;
use rotonda_store::prelude::multi::RouteStatus;
use std::net::{IpAddr, Ipv4Addr};
use std::sync::{Mutex, OnceLock};
use std::time::Duration;

const SESSION_ID: u32 = 7;

/// where the last panic happened, canonical: `<crate dir>/src/...:line`; and how many there were
static LAST_PANIC: Mutex<(usize, String)> = Mutex::new((0, String::new()));

fn install_panic_recorder() {
    static ONCE: std::sync::Once = std::sync::Once::new();
    ONCE.call_once(|| {
        let prev = std::panic::take_hook();
        std::panic::set_hook(Box::new(move |info| {
            if let Some(l) = info.location() {
                let f = l.file();
                let canon = match f.find("/registry/src/") {
                    Some(i) => f[i + 14..].splitn(2, '/').nth(1).unwrap_or(f).to_string(),
                    None => match f.rfind("/src/") { Some(i) => format!("rotonda{}", &f[i..]), None => f.to_string() },
                };
                let mut g = LAST_PANIC.lock().unwrap();
                g.0 += 1;
                if g.1.is_empty() { g.1 = format!("{}:{}", canon, l.line()); }
            }
            prev(info);
        }));
    });
}

fn runtime() -> &'static tokio::runtime::Runtime {
    static RT: OnceLock<tokio::runtime::Runtime> = OnceLock::new();
    RT.get_or_init(|| tokio::runtime::Builder::new_multi_thread().worker_threads(2).enable_all().build().unwrap())
}

fn show_update(u: &Update) -> (String, bool) {
    // (token, is a Bulk of the session's own routes)
    let one = |p: &rotonda::payload::Payload| -> (String, bool) {
        let (st, id) = match &p.context {
            RouteContext::Fresh(c) => (c.status, c.provenance().ingress_id),
            RouteContext::Mrt(c) => (c.status, c.provenance().ingress_id),
            _ => (RouteStatus::InActive, u32::MAX),
        };
        let kind = match st { RouteStatus::Active => 'A', RouteStatus::Withdrawn => 'W', _ => '?' };
        let own = id == SESSION_ID;
        (format!("{}{}", show_route(kind, &p.rx_value), if own { "" } else { "!id" }), own && kind != '?')
    };
    match u {
        Update::Bulk(ps) => {
            let l: Vec<(String, bool)> = ps.iter().map(one).collect();
            (format!("u:[{}]", l.iter().map(|x| x.0.clone()).collect::<Vec<_>>().join(",")), l.iter().all(|x| x.1))
        }
        Update::Single(p) => { let (t, _) = one(p); (format!("single:[{t}]"), false) }
        Update::Withdraw(id, None) => (format!("w:{}", if *id == SESSION_ID { "s".to_string() } else { format!("?{id}") }), false),
        Update::Withdraw(id, Some(f)) => (format!("w:{id}:{f}"), false),
        Update::WithdrawBulk(ids) => (format!("W:{ids:?}").replace(' ', ""), false),
        _ => ("other".into(), false),
    }
}

enum End { Close, Reset, Silent(u64), EarlyReset }

/// how long `handle_connection` gets to return after the peer has ended the connection (it takes
/// milliseconds); VH_BGPRX_WATCHDOG_MS overrides the default of 1.5 s
fn watchdog() -> Duration {
    Duration::from_millis(std::env::var("VH_BGPRX_WATCHDOG_MS").ok().and_then(|v| v.parse().ok()).unwrap_or(1500))
}

pub fn run_case(line: &str) -> String {
    install_panic_recorder();
    *LAST_PANIC.lock().unwrap() = (0, String::new());
    let mut full = false;
    let (mut asn, mut hold, mut dup): (Option<u32>, Option<u16>, bool) = (None, None, false);
    enum Op { Bytes(Vec<u8>), Sync(usize), Pause(u64), Live }
    let mut script: Vec<Op> = vec![];
    let mut end = End::Close;
    for op in ops(line) {
        match op[0] {
            "T" => full = true,
            "A" => {
                asn = if op[1] == "-" { None } else { Some(op[1].parse().unwrap()) };
                hold = if op[2] == "-" { None } else { Some(op[2].parse().unwrap()) };
                dup = op[3] == "1";
            }
            "S" => script.push(Op::Sync(op[1].parse().unwrap())),
            "P" => script.push(Op::Pause(op[1].parse().unwrap())),
            "L" => script.push(Op::Live),
            "C" => end = End::Close,
            "R" => end = End::Reset,
            "R0" => end = End::EarlyReset,
            "Z" => end = End::Silent(op[1].parse().unwrap()),
            _ if op.len() == 2 && op[0].len() == 1 => script.push(Op::Bytes(if op[1] == "-" { vec![] } else { unhex(op[1]).expect("hex") })),
            _ => panic!("bad op {:?}", op),
        }
    }
    let rt = runtime();
    rt.block_on(async move {
        use tokio::io::{AsyncReadExt, AsyncWriteExt};
        let listener = tokio::net::TcpListener::bind("127.0.0.1:0").await.expect("loopback");
        let addr = listener.local_addr().unwrap();
        let client = tokio::net::TcpStream::connect(addr).await.unwrap();
        let (server, peer) = listener.accept().await.unwrap();
        drop(listener);
        let _ = client.set_nodelay(true);
        let peer_key = (IpAddr::V4(Ipv4Addr::new(127, 0, 0, 1)), inetnum::asn::Asn::from_u32(65001));
        if matches!(end, End::EarlyReset) {
            // RST first, the connection task afterwards
            client.set_linger(Some(Duration::from_secs(0))).unwrap();
            drop(client);
            tokio::time::sleep(Duration::from_millis(5)).await;
            let fx = bc::start_with(server, peer.ip(), SESSION_ID, asn, hold, vec![]).await;
            let ended = fx.finish(watchdog()).await;
            return report(ended, None, full, peer_key);
        }
        let fx = bc::start_with(server, peer.ip(), SESSION_ID, asn, hold, if dup { vec![peer_key] } else { vec![] }).await;
        if matches!(end, End::Reset) { client.set_linger(Some(Duration::from_secs(0))).unwrap(); }
        let (mut rd, mut wr) = client.into_split();
        // the peer reads and forgets whatever rotonda sends
        let mut reader = tokio::spawn(async move {
            let mut chunk = [0u8; 4096];
            loop {
                match rd.read(&mut chunk).await { Ok(0) | Err(_) => break, Ok(_) => {} }
            }
            rd
        });
        let mut write_failed = false;
        for op in script {
            match op {
                Op::Bytes(b) => {
                    if !write_failed && (wr.write_all(&b).await.is_err() || wr.flush().await.is_err()) { write_failed = true; }
                }
                Op::Sync(n) => {
                    let t0 = std::time::Instant::now();
                    while t0.elapsed() < Duration::from_millis(1500) {
                        if fx.updates().len() >= n || fx.connection_finished() { break; }
                        tokio::time::sleep(Duration::from_millis(1)).await;
                    }
                }
                Op::Live => {
                    let t0 = std::time::Instant::now();
                    while t0.elapsed() < Duration::from_millis(1500) {
                        if fx.live().len() > dup as usize || fx.connection_finished() { break; }
                        tokio::time::sleep(Duration::from_millis(1)).await;
                    }
                }
                Op::Pause(ms) => tokio::time::sleep(Duration::from_millis(ms)).await,
            }
        }
        let mut z = None;
        match end {
            // FIN: the write side is shut down, the peer goes on reading (closing a socket that holds unread
            // data would send RST)
            End::Close => { let _ = wr.shutdown().await; }
            End::Reset => { tokio::time::sleep(Duration::from_millis(2)).await; reader.abort(); let _ = (&mut reader).await; }
            End::EarlyReset => unreachable!(),
            End::Silent(ms) => {
                tokio::time::sleep(Duration::from_millis(ms)).await;
                z = Some(!fx.connection_finished());
                let _ = wr.shutdown().await;
            }
        }
        if matches!(end, End::Reset) { drop(wr); }
        let ended = fx.finish(watchdog()).await;
        reader.abort();
        report(ended, z, full, peer_key)
    })
}

fn report(ended: bc::Ended, z: Option<bool>, full: bool, peer_key: (IpAddr, inetnum::asn::Asn)) -> String {
    {
        // a panic of the writer task (spawned by handle_connection) may come a little later
        let mut out: Vec<String> = vec![];
        let (npanics, loc) = LAST_PANIC.lock().unwrap().clone();
        let task_panicked = matches!(ended.outcome, Some(Err(_)));
        out.push(if npanics == 0 && !task_panicked { "P:-".into() } else { format!("P:{}", if loc.is_empty() { "?".into() } else { loc }) });
        out.push(format!("end:{}", matches!(ended.outcome, Some(Ok(()))) as u8));
        let live: Vec<String> = ended.live.iter().map(|k| if *k == peer_key { "peer".to_string() } else { format!("?{}@{}", k.1, k.0) }).collect();
        out.push(format!("live:{}", if live.is_empty() { "-".into() } else { live.join(",") }));
        let toks: Vec<(String, bool)> = ended.updates.iter().map(show_update).collect();
        let n = toks.len();
        let fin = if n == 0 { "-".to_string() }
            else if toks[n - 1].0 == "w:s" && toks[..n - 1].iter().all(|t| t.1) { "w".to_string() }
            else if toks.iter().all(|t| t.1) { "BAD:no-withdraw".to_string() }
            else { format!("BAD:{}", toks.iter().map(|t| if t.1 { "u" } else { t.0.split(':').next().unwrap_or("?") }).collect::<Vec<_>>().join("")) };
        out.push(format!("fin:{fin}"));
        if let Some(alive) = z { out.push(format!("z:{}", alive as u8)); }
        if full {
            out.push("|".into());
            for t in toks { out.push(t.0); }
        }
        out.join(" ")
    }
}

pub fn special(_name: &str, _args: &[String]) -> bool { false }
