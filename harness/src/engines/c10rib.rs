//! c10rib: the rib-in-pre call site. A real RibUnitRunner (physical RIB) with
//! the compiled filter installed; UPDATEs are exploded by the real BGP
//! processor and handed to RibUnitRunner::process_update; what leaves the
//! unit's gate is captured; the RIB is queried with Rib::match_prefix.
//! Case grammar: `F rib <prog|none>` then
//!   U <id> <tag> <attrs> <ann prefixes|-> <wd prefixes|->    -> out:[..] fwd:[..]
//!   M <id> <tag> <attrs> <prefix>                           -> out:[..] fwd:[..]   one route of an MRT table dump:
//!                                                              Update::Single, RouteContext::Mrt (mrt-file-in)
//!   Q <prefix>                                              -> q:[..]
use crate::engines::c10::{self, parse_attrs, parse_filter, pfx_str, plist, roto_source, update_bytes};
use rotonda::payload::{RotondaRoute, Update};
use rotonda::roto_runtime::types::{OutputStreamMessage, OutputStreamMessageRecord, RouteContext};
use rotonda::verif::filter as vf;
use rotonda::verif::rib::RibUnitRunner;
use rotonda_store::prelude::multi::RouteStatus;
use rotonda_store::{MatchOptions, MatchType};
use std::net::IpAddr;
use std::str::FromStr;
use std::sync::Arc;

pub fn route_pfx(r: &RotondaRoute) -> String {
    let v = serde_json::to_value(r).unwrap_or(serde_json::Value::Null);
    let s = v.get("prefix").map(|p| p.as_str().map(|x| x.to_string()).unwrap_or_else(|| p.to_string())).unwrap_or_default();
    match inetnum::addr::Prefix::from_str(s.trim_matches('"')) {
        Ok(p) => match p.addr_and_len() { (IpAddr::V4(a), l) => format!("{}", (u32::from(a) as u64) * 64 + l as u64), _ => "v6".into() },
        Err(_) => format!("?{s}"),
    }
}

pub fn tag_of(meta: &rotonda::payload::RotondaPaMap) -> String {
    let s = serde_json::to_string(meta).unwrap_or_default();
    // ... {"nextHop": ...10.0.hi.lo ...}
    if let Some(i) = s.find("10.0.") {
        let rest: String = s[i + 5..].chars().take_while(|c| c.is_ascii_digit() || *c == '.').collect();
        let p: Vec<u32> = rest.split('.').filter_map(|x| x.parse().ok()).collect();
        if p.len() >= 2 { return format!("{}", p[0] * 256 + p[1]); }
    }
    "?".into()
}

pub fn show_osm(m: &OutputStreamMessage) -> String { show_osm_with(m, &|i| i.to_string()) }
pub fn payload_tok(p: &rotonda::payload::Payload) -> String { payload_tok_with(p, &|i| i.to_string()) }

pub fn show_osm_with(m: &OutputStreamMessage, idn: &dyn Fn(u32) -> String) -> String {
    let ing = m.get_ingress_id().map(|i| idn(i)).unwrap_or_else(|| "-".into());
    match m.get_record() {
        OutputStreamMessageRecord::Route(r) => format!("{}@{}#{}", m.get_topic(), r.as_ref().map(route_pfx).unwrap_or_else(|| "-".into()), ing),
        OutputStreamMessageRecord::Peerdown(_, asn) => format!("peerdown:{}#{}", asn.into_u32(), ing),
        OutputStreamMessageRecord::Custom(c) => {
            let v = serde_json::to_value(c).unwrap();
            format!("custom:{}:{}#{}", v["id"], v["value"], ing)
        }
        OutputStreamMessageRecord::Entry(_) => format!("entry#{}", ing),
    }
}

pub fn payload_tok_with(p: &rotonda::payload::Payload, idn: &dyn Fn(u32) -> String) -> String {
    let (st, id) = match &p.context {
        RouteContext::Fresh(c) => (c.status, c.provenance().ingress_id),
        RouteContext::Mrt(c) => (c.status, c.provenance().ingress_id),
        _ => (RouteStatus::Active, u32::MAX),
    };
    if std::env::var("VH_DEBUG_ROUTES").is_ok() { eprintln!("ROUTE {}", serde_json::to_string(&p.rx_value).unwrap_or_default()); }
    if st == RouteStatus::Active { format!("+{}#{}/{}", route_pfx(&p.rx_value), idn(id), tag_of(p.rx_value.rotonda_pamap())) }
    else { format!("-{}#{}", route_pfx(&p.rx_value), idn(id)) }
}

/// out:[messages of all OutputStream updates, in order]  fwd:[payloads of all Bulk/Single updates]  (+ other updates)
pub fn show_downstream(us: &[Update]) -> (String, String) {
    let mut outs = vec![];
    let mut fwd = vec![];
    let mut seen_fwd = false;
    let mut order_ok = true;
    for u in us {
        match u {
            Update::OutputStream(ms) => { if seen_fwd { order_ok = false; } outs.extend(ms.iter().map(show_osm)) }
            Update::Bulk(ps) => { seen_fwd = true; fwd.extend(ps.iter().map(payload_tok)) }
            Update::Single(p) => { seen_fwd = true; fwd.push(payload_tok(p)) }
            Update::Withdraw(id, _) => { seen_fwd = true; fwd.push(format!("w#{id}")) }
            Update::WithdrawBulk(ids) => { seen_fwd = true; let mut v: Vec<u32> = ids.to_vec(); v.sort(); fwd.push(format!("W#{:?}", v).replace(' ', "")) }
            _ => fwd.push("other".into()),
        }
    }
    (format!("out:[{}]{}", outs.join(","), if order_ok { "" } else { "!late" }), format!("fwd:[{}]", fwd.join(",")))
}

pub fn run_case(line: &str) -> String {
    let ops = crate::util::ops(line);
    if ops.is_empty() { return String::new(); }
    let (kind, prog) = parse_filter(&ops[0]);
    assert!(kind == "rib");
    let rt = tokio::runtime::Builder::new_current_thread().enable_all().build().unwrap();
    // a dropped Link spawns its unsubscribe task: stay inside the runtime context until everything is gone
    let _g = rt.enter();
    let reg = Arc::new(rotonda::verif::ingress::new_register());
    let (mut rib, mut agent) = RibUnitRunner::verif_new(reg.clone());
    if let Some(p) = &prog {
        let mut script = match c10::compile(&roto_source(&kind, p)) { Ok(s) => s, Err(e) => return format!("COMPILE-ERROR {}", e.replace('\n', " ")) };
        // RibUnitRunner::new: the function named rib-in-pre of the loaded script, if any
        rib.verif_set_roto_pre(script.rib_in_pre());
    }
    let gate = rib.verif_gate();
    let cap = rt.block_on(vf::Capture::attach(&gate, &mut agent));
    let mut out: Vec<String> = vec![];
    for op in &ops[1..] {
        match op[0] {
            "U" => {
                let id: u32 = op[1].parse().unwrap();
                let mut a = parse_attrs(op[3]);
                a.tag = op[2].parse().unwrap();
                let bytes = update_bytes(&a, &plist(op[4]), &plist(op[5]), true);
                let msg = routecore::bgp::message::UpdateMessage::from_octets(bytes, &routecore::bgp::message::SessionConfig::modern()).unwrap();
                let u = rt.block_on(rotonda::verif::bgp::verif_process_update(msg, c10::bgp_provenance(id, 65000))).unwrap();
                rt.block_on(rib.verif_process_update(u)).unwrap();
                let (o, f) = show_downstream(&cap.take());
                out.push(o);
                out.push(f);
            }
            "M" => {
                // what mrt-file-in sends for a RIB entry: the route alone, its provenance in an MrtContext
                let id: u32 = op[1].parse().unwrap();
                let mut a = parse_attrs(op[3]);
                a.tag = op[2].parse().unwrap();
                let bytes = update_bytes(&a, &plist(op[4]), &[], true);
                let msg = routecore::bgp::message::UpdateMessage::from_octets(bytes, &routecore::bgp::message::SessionConfig::modern()).unwrap();
                let u = rt.block_on(rotonda::verif::bgp::verif_process_update(msg, c10::bgp_provenance(id, 65000))).unwrap();
                let mut p = match u { Update::Bulk(ps) => ps.into_iter().next().unwrap(), Update::Single(p) => p, _ => panic!("no route") };
                let prov = match &p.context { RouteContext::Fresh(c) => c.provenance(), _ => panic!("fresh context expected") };
                p.context = RouteContext::for_mrt_dump(prov);
                rt.block_on(rib.verif_process_update(Update::Single(p))).unwrap();
                let (o, f) = show_downstream(&cap.take());
                out.push(o);
                out.push(f);
            }
            "Q" => {
                let pfx = inetnum::addr::Prefix::from_str(&pfx_str(op[1].parse().unwrap())).unwrap();
                let mo = MatchOptions { match_type: MatchType::ExactMatch, include_withdrawn: true, include_less_specifics: false, include_more_specifics: false, mui: None };
                let res = rib.verif_rib().match_prefix(&pfx, &mo).unwrap();
                let mut es: Vec<String> = res.prefix_meta.iter().map(|r| {
                    format!("{}={}{}", r.multi_uniq_id, if r.status == RouteStatus::Active { "A" } else { "W" }, tag_of(&r.meta))
                }).collect();
                es.sort();
                out.push(format!("q:[{}]", es.join(",")));
            }
            _ => panic!("bad op {:?}", op),
        }
    }
    out.join(" ")
}

pub fn special(_name: &str, _args: &[String]) -> bool { false }
