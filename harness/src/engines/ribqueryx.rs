//! ribqueryx (C11, bulk): the same implementation run as `ribquery`; only the
//! oracle side differs (see oracle/eng_ribqueryx.ml).
pub fn run_case(line: &str) -> String { super::ribquery::run_case(line) }
pub fn special(_name: &str, _args: &[String]) -> bool { false }
