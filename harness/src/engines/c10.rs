//! C10: Roto filters. Three line-protocol engines share this file's code:
//!   c10    - predicate level: the compiled filter function is called directly
//!            (as the units call it) on routes / BGP UPDATEs / BMP messages;
//!            observation per input = verdict + the Output entries of the call.
//!   c10rib - the rib-in-pre call site: real RibUnitRunner with the filter
//!            installed (see c10rib.rs).
//!   c10bmp - the bmp-in call site: real RouterHandler::process_msg with the
//!            filter installed (see c10bmp.rs).
//! Case grammar (ops separated by ';'), same as oracle/eng_c10.ml:
//!   F <rib|bgp|bmp> <prog>      first op: the filter (prefix notation, below)
//!   R <pfx> <attrs>             a route (rib filter)
//!   G <peer-asn> <attrs> <nann> <nwd>        a BGP UPDATE (bgp filter)
//!   M <kind> <pph> <as2> <attrs> <nann> <nwd>  a BMP message (bmp filter)
//! prog  := end | out <ocall> <prog> | let <ty> <n> <prog> | if <cond> <prog> <prog> <prog> | ret A | ret R
//! cond  := t | f | not <cond> | and <cond> <cond> | or <cond> <cond> | <pred>
//! pred  := asc <arg> | aso <arg> | com <arg> | att <arg> | pfx <arg> | ibgp <arg> | rm | pd
//!          | pasn <arg> | nann <cmp> <n> | nwd <cmp> <n>          cmp := eq | ne | lt | le | gt | ge
//! arg   := #<n> (literal) | $<i> (i-th let in scope)
//! ocall := prefix <arg> | asn <arg> | origin <arg> | comm <arg> | peerdown | custom <arg> <arg>
//! attrs := <path>/<comms>/<lcomms>/<extra>   path := '-' (no AS_PATH) | seg(+seg)*, seg := s<asn>(.<asn>)* | t<asn>(.<asn>)*
//!          comms := '-' | n(.n)*   lcomms := '-' | a:b:c(.a:b:c)*   extra := '-' | code(.code)*
use bytes::Bytes;
use rotonda::roto_runtime::types::{Output, PeerRibType, Provenance};
use rotonda::verif::filter as vf;
use std::net::{IpAddr, Ipv4Addr};

// ------------------------------------------------------------------ AST

#[derive(Clone, Debug)]
pub enum Arg { Lit(u64), Var(usize) }
#[derive(Clone, Debug)]
pub enum Pred {
    Asc(Arg), Aso(Arg), Com(Arg), Att(Arg), Pfx(Arg), Ibgp(Arg), Rm, Pd, Pasn(Arg),
    Nann(String, u64), Nwd(String, u64),
}
#[derive(Clone, Debug)]
pub enum Cond { T, F, P(Pred), Not(Box<Cond>), And(Box<Cond>, Box<Cond>), Or(Box<Cond>, Box<Cond>) }
#[derive(Clone, Debug)]
pub enum Ocall { Prefix(Arg), Asn(Arg), Origin(Arg), Comm(Arg), PeerDown, Custom(Arg, Arg) }
#[derive(Clone, Debug)]
pub enum Prog {
    End,
    Out(Ocall, Box<Prog>),
    Let(String, u64, Box<Prog>),
    If(Cond, Box<Prog>, Box<Prog>, Box<Prog>),
    Ret(bool),
}

pub struct Toks<'a> { t: Vec<&'a str>, i: usize }
impl<'a> Toks<'a> {
    pub fn new(t: &[&'a str]) -> Self { Toks { t: t.to_vec(), i: 0 } }
    fn next(&mut self) -> &'a str { let x = self.t.get(self.i).copied().expect("program text ends early"); self.i += 1; x }
    fn arg(&mut self) -> Arg {
        let t = self.next();
        if let Some(n) = t.strip_prefix('#') { Arg::Lit(n.parse().unwrap()) }
        else if let Some(n) = t.strip_prefix('$') { Arg::Var(n.parse().unwrap()) }
        else { panic!("bad arg {t}") }
    }
    fn cond(&mut self) -> Cond {
        match self.next() {
            "t" => Cond::T,
            "f" => Cond::F,
            "not" => Cond::Not(Box::new(self.cond())),
            "and" => { let a = self.cond(); let b = self.cond(); Cond::And(Box::new(a), Box::new(b)) }
            "or" => { let a = self.cond(); let b = self.cond(); Cond::Or(Box::new(a), Box::new(b)) }
            "asc" => Cond::P(Pred::Asc(self.arg())),
            "aso" => Cond::P(Pred::Aso(self.arg())),
            "com" => Cond::P(Pred::Com(self.arg())),
            "att" => Cond::P(Pred::Att(self.arg())),
            "pfx" => Cond::P(Pred::Pfx(self.arg())),
            "ibgp" => Cond::P(Pred::Ibgp(self.arg())),
            "rm" => Cond::P(Pred::Rm),
            "pd" => Cond::P(Pred::Pd),
            "pasn" => Cond::P(Pred::Pasn(self.arg())),
            "nann" => { let c = self.next().to_string(); let n = self.next().parse().unwrap(); Cond::P(Pred::Nann(c, n)) }
            "nwd" => { let c = self.next().to_string(); let n = self.next().parse().unwrap(); Cond::P(Pred::Nwd(c, n)) }
            x => panic!("bad cond {x}"),
        }
    }
    fn ocall(&mut self) -> Ocall {
        match self.next() {
            "prefix" => Ocall::Prefix(self.arg()),
            "asn" => Ocall::Asn(self.arg()),
            "origin" => Ocall::Origin(self.arg()),
            "comm" => Ocall::Comm(self.arg()),
            "peerdown" => Ocall::PeerDown,
            "custom" => { let a = self.arg(); let b = self.arg(); Ocall::Custom(a, b) }
            x => panic!("bad output call {x}"),
        }
    }
    pub fn prog(&mut self) -> Prog {
        match self.next() {
            "end" => Prog::End,
            "out" => { let o = self.ocall(); Prog::Out(o, Box::new(self.prog())) }
            "let" => { let t = self.next().to_string(); let n = self.next().parse().unwrap(); Prog::Let(t, n, Box::new(self.prog())) }
            "if" => { let c = self.cond(); let a = self.prog(); let b = self.prog(); let k = self.prog(); Prog::If(c, Box::new(a), Box::new(b), Box::new(k)) }
            "ret" => Prog::Ret(self.next() == "A"),
            x => panic!("bad prog {x}"),
        }
    }
    pub fn done(&self) -> bool { self.i == self.t.len() }
}

// ------------------------------------------------------------------ Roto source

pub fn pfx_str(n: u64) -> String {
    let len = n % 64;
    let a = (n / 64) as u32;
    format!("{}/{}", Ipv4Addr::from(a), len)
}

fn lit(ty: &str, n: u64) -> String {
    match ty {
        "asn" => format!("AS{n}"),
        "com" => format!("Community(0x{:08x})", n),
        "pfx" => pfx_str(n),
        _ => format!("{n}"),
    }
}

struct Printer { recv: &'static str, scope: Vec<String>, next_var: usize, out: String }
impl Printer {
    fn arg(&self, ty: &str, a: &Arg) -> String {
        match a { Arg::Lit(n) => lit(ty, *n), Arg::Var(i) => self.scope.get(*i).cloned().unwrap_or_else(|| format!("unbound{i}")) }
    }
    fn cond(&self, c: &Cond) -> String {
        let r = self.recv;
        match c {
            Cond::T => "true".into(),
            Cond::F => "false".into(),
            Cond::Not(c) => format!("not ({})", self.cond(c)),
            Cond::And(a, b) => format!("({}) && ({})", self.cond(a), self.cond(b)),
            Cond::Or(a, b) => format!("({}) || ({})", self.cond(a), self.cond(b)),
            Cond::P(p) => match p {
                Pred::Asc(a) => format!("{r}.aspath_contains({})", self.arg("asn", a)),
                Pred::Aso(a) => format!("{r}.match_aspath_origin({})", self.arg("asn", a)),
                Pred::Com(a) => format!("{r}.contains_community({})", self.arg("com", a)),
                Pred::Att(a) => format!("{r}.has_attribute({})", self.arg("u8", a)),
                Pred::Pfx(a) => format!("{r}.prefix_matches({})", self.arg("pfx", a)),
                Pred::Ibgp(a) => format!("{r}.is_ibgp({})", self.arg("asn", a)),
                Pred::Rm => format!("{r}.is_route_monitoring()"),
                Pred::Pd => format!("{r}.is_peer_down()"),
                Pred::Pasn(a) => format!("prov.peer_asn() == {}", self.arg("asn", a)),
                Pred::Nann(c, n) => format!("{r}.announcements_count() {} {n}", cmp_str(c)),
                Pred::Nwd(c, n) => format!("{r}.withdrawals_count() {} {n}", cmp_str(c)),
            },
        }
    }
    fn block(&mut self, p: &Prog, ind: usize) {
        let pad = "    ".repeat(ind);
        match p {
            Prog::End => {}
            Prog::Out(o, k) => {
                let s = match o {
                    Ocall::Prefix(a) => format!("output.log_prefix({});", self.arg("pfx", a)),
                    Ocall::Asn(a) => format!("output.log_matched_asn({});", self.arg("asn", a)),
                    Ocall::Origin(a) => format!("output.log_matched_origin({});", self.arg("asn", a)),
                    Ocall::Comm(a) => format!("output.log_matched_community({});", self.arg("com", a)),
                    Ocall::PeerDown => "output.log_peer_down();".to_string(),
                    Ocall::Custom(a, b) => format!("output.log_custom({}, {});", self.arg("u32", a), self.arg("u32", b)),
                };
                self.out.push_str(&format!("{pad}{s}\n"));
                self.block(k, ind);
            }
            Prog::Let(t, n, k) => {
                let name = format!("v{}", self.next_var);
                self.next_var += 1;
                self.out.push_str(&format!("{pad}let {name} = {};\n", lit(t, *n)));
                self.scope.push(name);
                self.block(k, ind);
                self.scope.pop();
            }
            Prog::If(c, a, b, k) => {
                self.out.push_str(&format!("{pad}if {} {{\n", self.cond(c)));
                let depth = self.scope.len();
                self.block(a, ind + 1);
                self.scope.truncate(depth);
                if matches!(**b, Prog::End) {
                    self.out.push_str(&format!("{pad}}}\n"));
                } else {
                    self.out.push_str(&format!("{pad}}} else {{\n"));
                    self.block(b, ind + 1);
                    self.scope.truncate(depth);
                    self.out.push_str(&format!("{pad}}}\n"));
                }
                self.block(k, ind);
            }
            Prog::Ret(acc) => self.out.push_str(&format!("{pad}{}\n", if *acc { "accept" } else { "reject" })),
        }
    }
}

fn cmp_str(c: &str) -> &'static str {
    match c { "eq" => "==", "ne" => "!=", "lt" => "<", "le" => "<=", "gt" => ">", "ge" => ">=", _ => panic!("bad cmp") }
}

pub fn roto_source(kind: &str, p: &Prog) -> String {
    let (head, recv) = match kind {
        "rib" => ("filter rib-in-pre(\n    route: Route,\n) {\n", "route"),
        "bgp" => ("filter bgp-in(\n    bgp_msg: BgpMsg,\n    prov: Provenance,\n) {\n", "bgp_msg"),
        "bmp" => ("filter bmp-in(\n    bmp_msg: BmpMsg,\n    prov: Provenance,\n) {\n", "bmp_msg"),
        _ => panic!("bad filter kind {kind}"),
    };
    let mut pr = Printer { recv, scope: vec![], next_var: 0, out: head.to_string() };
    pr.block(p, 1);
    pr.out.push_str("}\n");
    pr.out
}

/// Compiles through a file, as the manager does.
pub fn compile(src: &str) -> Result<vf::Script, String> {
    use std::sync::atomic::{AtomicUsize, Ordering};
    static N: AtomicUsize = AtomicUsize::new(0);
    let dir = std::env::temp_dir();
    let path = dir.join(format!("vh-c10-{}-{}.roto", std::process::id(), N.fetch_add(1, Ordering::SeqCst)));
    std::fs::write(&path, src).map_err(|e| e.to_string())?;
    let r = vf::Script::compile_file(&path.to_string_lossy());
    let _ = std::fs::remove_file(&path);
    r
}

pub struct Filter { pub kind: String, pub script: Option<vf::Script> }

/// `F <kind> <prog>` or `F <kind> none` (no script loaded).
pub fn parse_filter(op: &[&str]) -> (String, Option<Prog>) {
    assert!(op[0] == "F" && op.len() >= 3, "first op must be F <kind> <prog>");
    let kind = op[1].to_string();
    if op[2] == "none" { return (kind, None); }
    let mut t = Toks::new(&op[2..]);
    let p = t.prog();
    assert!(t.done(), "trailing program text");
    (kind, Some(p))
}

// ------------------------------------------------------------------ inputs

#[derive(Clone, Debug, Default)]
pub struct Attrs {
    pub path: Option<Vec<(bool, Vec<u32>)>>, // (is_set, asns)
    pub comms: Vec<u32>,
    pub lcomms: Vec<(u32, u32, u32)>,
    pub extra: Vec<u8>,
    /// identifies the attribute set in RIB queries: written into NEXT_HOP (10.0.hi.lo)
    pub tag: u16,
}

pub fn parse_attrs(t: &str) -> Attrs {
    let f: Vec<&str> = t.split('/').collect();
    assert!(f.len() == 4, "attrs: path/comms/lcomms/extra");
    let path = if f[0] == "-" { None } else {
        Some(f[0].split('+').filter(|s| !s.is_empty()).map(|s| {
            let set = s.starts_with('t');
            let asns = s[1..].split('.').filter(|x| !x.is_empty()).map(|x| x.parse().unwrap()).collect();
            (set, asns)
        }).collect())
    };
    let list = |s: &str| -> Vec<String> { if s == "-" { vec![] } else { s.split('.').map(|x| x.to_string()).collect() } };
    Attrs {
        path,
        comms: list(f[1]).iter().map(|x| x.parse().unwrap()).collect(),
        lcomms: list(f[2]).iter().map(|x| { let p: Vec<u32> = x.split(':').map(|y| y.parse().unwrap()).collect(); (p[0], p[1], p[2]) }).collect(),
        extra: list(f[3]).iter().map(|x| x.parse().unwrap()).collect(),
        tag: 1,
    }
}

fn attr(out: &mut Vec<u8>, flags: u8, code: u8, val: &[u8]) {
    if val.len() > 255 {
        out.extend_from_slice(&[flags | 0x10, code]);
        out.extend_from_slice(&(val.len() as u16).to_be_bytes());
    } else {
        out.extend_from_slice(&[flags, code, val.len() as u8]);
    }
    out.extend_from_slice(val);
}

fn nlri(out: &mut Vec<u8>, p: u64) {
    let len = (p % 64) as u8;
    let a = ((p / 64) as u32).to_be_bytes();
    out.push(len);
    out.extend_from_slice(&a[..((len as usize) + 7) / 8]);
}

/// A BGP UPDATE (RFC 4271 4.3): withdrawn routes, path attributes, NLRI; IPv4
/// unicast. `as4` = AS numbers in AS_PATH are 4 octets wide. Attributes are
/// only present when something is announced.
pub fn update_bytes(a: &Attrs, ann: &[u64], wd: &[u64], as4: bool) -> Bytes {
    let mut w = vec![];
    for p in wd { nlri(&mut w, *p); }
    let mut pa = vec![];
    if !ann.is_empty() {
        attr(&mut pa, 0x40, 1, &[0]);
        if let Some(segs) = &a.path {
            let mut v = vec![];
            for (set, asns) in segs {
                v.push(if *set { 1 } else { 2 });
                v.push(asns.len() as u8);
                for x in asns {
                    if as4 { v.extend_from_slice(&x.to_be_bytes()) } else { v.extend_from_slice(&(*x as u16).to_be_bytes()) }
                }
            }
            attr(&mut pa, 0x40, 2, &v);
        }
        attr(&mut pa, 0x40, 3, &[10, 0, (a.tag >> 8) as u8, (a.tag & 255) as u8]);
        for code in &a.extra {
            match code {
                4 => attr(&mut pa, 0x80, 4, &[0, 0, 0, 50]),
                5 => attr(&mut pa, 0x40, 5, &[0, 0, 0, 100]),
                6 => attr(&mut pa, 0x40, 6, &[]),
                35 => attr(&mut pa, 0xc0, 35, &[0, 0, 0xfd, 0xe9]),
                c => attr(&mut pa, 0xc0, *c, &[1, 2]),
            }
        }
        if !a.comms.is_empty() {
            let v: Vec<u8> = a.comms.iter().flat_map(|c| c.to_be_bytes()).collect();
            attr(&mut pa, 0xc0, 8, &v);
        }
        if !a.lcomms.is_empty() {
            let v: Vec<u8> = a.lcomms.iter().flat_map(|(x, y, z)| [x.to_be_bytes(), y.to_be_bytes(), z.to_be_bytes()].concat()).collect();
            attr(&mut pa, 0xc0, 32, &v);
        }
    }
    let mut n = vec![];
    for p in ann { nlri(&mut n, *p); }
    let mut v = vec![0xffu8; 16];
    let len = 19 + 2 + w.len() + 2 + pa.len() + n.len();
    v.extend_from_slice(&(len as u16).to_be_bytes());
    v.push(2);
    v.extend_from_slice(&(w.len() as u16).to_be_bytes());
    v.extend_from_slice(&w);
    v.extend_from_slice(&(pa.len() as u16).to_be_bytes());
    v.extend_from_slice(&pa);
    v.extend_from_slice(&n);
    Bytes::from(v)
}

pub fn plist(t: &str) -> Vec<u64> {
    if t == "-" { vec![] } else { t.split(',').map(|x| x.parse().unwrap()).collect() }
}

/// prefixes announced / withdrawn by a message that only states counts
pub fn count_prefixes(n: usize, base: u64) -> Vec<u64> {
    (0..n as u64).map(|i| ((0x0a00_0000u64 + ((base + i) << 8)) * 64) + 24).collect()
}

pub fn show_output(o: &Output) -> String {
    match o {
        Output::Community(c) => format!("comm:{c}"),
        Output::Asn(a) => format!("asn:{}", a.into_u32()),
        Output::Origin(a) => format!("origin:{}", a.into_u32()),
        Output::PeerDown => "peerdown".into(),
        Output::Prefix(p) => {
            let (a, l) = p.addr_and_len();
            match a { IpAddr::V4(a) => format!("prefix:{}", (u32::from(a) as u64) * 64 + l as u64), _ => "prefix:v6".into() }
        }
        Output::Custom((a, b)) => format!("custom:{a}:{b}"),
        Output::Entry(_) => "entry".into(),
    }
}

pub fn show_call(acc: bool, outs: &[Output]) -> String {
    format!("{}[{}]", if acc { "A" } else { "R" }, outs.iter().map(show_output).collect::<Vec<_>>().join(","))
}

pub fn bgp_provenance(id: u32, asn: u32) -> Provenance {
    let ip = IpAddr::V4(Ipv4Addr::new(203, 0, 113, 1));
    Provenance::for_bmp(id, ip, inetnum::asn::Asn::from_u32(asn), ip, [0; 9], PeerRibType::OutPost)
}

pub fn run_case(line: &str) -> String {
    let ops = crate::util::ops(line);
    if ops.is_empty() { return String::new(); }
    let (kind, prog) = parse_filter(&ops[0]);
    let mut script = match &prog {
        Some(p) => match compile(&roto_source(&kind, p)) { Ok(s) => Some(s), Err(e) => return format!("COMPILE-ERROR {}", e.replace('\n', " ")) },
        None => None,
    };
    let rib_f = script.as_mut().and_then(|s| if kind == "rib" { s.rib_in_pre() } else { None });
    let bgp_f = script.as_mut().and_then(|s| if kind == "bgp" { s.bgp_in() } else { None });
    let bmp_f = script.as_mut().and_then(|s| if kind == "bmp" { s.bmp_in() } else { None });
    let rt = tokio::runtime::Builder::new_current_thread().enable_all().build().unwrap();
    let mut out: Vec<String> = vec![];
    for op in &ops[1..] {
        match op[0] {
            "R" => {
                let pfx: u64 = op[1].parse().unwrap();
                let a = parse_attrs(op[2]);
                let route = crate::engines::c10::mk_route(&rt, pfx, &a);
                match &rib_f {
                    Some(f) => { let (acc, outs) = vf::call_rib_in_pre(f, route); out.push(show_call(acc, &outs)) }
                    None => out.push("nofilter".into()),
                }
            }
            "G" => {
                let asn: u32 = op[1].parse().unwrap();
                let a = parse_attrs(op[2]);
                let (na, nw): (usize, usize) = (op[3].parse().unwrap(), op[4].parse().unwrap());
                let bytes = update_bytes(&a, &count_prefixes(na, 0), &count_prefixes(nw, 100), true);
                let msg = routecore::bgp::message::UpdateMessage::from_octets(bytes, &routecore::bgp::message::SessionConfig::modern()).unwrap();
                match &bgp_f {
                    Some(f) => { let (acc, outs) = vf::call_bgp_in(f, msg, bgp_provenance(7, asn)); out.push(show_call(acc, &outs)) }
                    None => out.push("nofilter".into()),
                }
            }
            "M" => {
                let bytes = bmp_bytes(&op[1..]);
                let msg = routecore::bmp::message::Message::from_octets(bytes).unwrap();
                let pph_asn: u32 = op[2].parse().unwrap_or(0);
                match &bmp_f {
                    Some(f) => {
                        // the provenance RouterHandler::process_msg builds: peer AS from the per-peer header, else AS0
                        let has_pph = !matches!(op[1], "init" | "term");
                        let (acc, outs) = vf::call_bmp_in(f, msg, bgp_provenance(7, if has_pph { pph_asn } else { 0 }));
                        out.push(show_call(acc, &outs))
                    }
                    None => out.push("nofilter".into()),
                }
            }
            _ => panic!("bad op {:?}", op),
        }
    }
    out.join(" ")
}

/// `<kind> <pph-asn> <as2> <attrs> <nann> <nwd>`: kind rm | stats | pd | pu | init | term | mirror
pub fn bmp_bytes(op: &[&str]) -> Bytes {
    use rotonda::bgp::encode as enc;
    let asn: u32 = op[1].parse().unwrap_or(0);
    let pph = enc::PerPeerHeader {
        peer_type: routecore::bmp::message::PeerType::GlobalInstance.into(),
        peer_flags: 0,
        peer_distinguisher: [0; 8],
        peer_address: IpAddr::V4(Ipv4Addr::new(192, 0, 2, 1)),
        peer_as: inetnum::asn::Asn::from_u32(asn),
        peer_bgp_id: [0, 0, 0, 1],
    };
    match op[0] {
        "init" => enc::mk_initiation_msg("r", "d"),
        "term" => enc::mk_termination_msg(),
        "stats" => enc::mk_statistics_report_msg(&pph),
        "mirror" => crate::engines::c10bmp::route_mirroring_bytes(&pph),
        "pd" => enc::mk_peer_down_notification_msg(&pph),
        "pu" => enc::mk_peer_up_notification_msg(&pph, "10.0.0.1".parse().unwrap(), 11019, 4567, 111, 222, 0, 0, vec![], false),
        "rm" => {
            let as2 = op[2] == "1";
            let a = parse_attrs(op[3]);
            let (na, nw): (usize, usize) = (op[4].parse().unwrap(), op[5].parse().unwrap());
            enc::mk_raw_route_monitoring_msg(&pph, update_bytes(&a, &count_prefixes(na, 0), &count_prefixes(nw, 100), !as2))
        }
        k => panic!("bad bmp kind {k}"),
    }
}

/// A route as it reaches the RIB unit: the UPDATE announcing it is exploded by
/// the real BGP processor (explode_announcements).
pub fn mk_route(rt: &tokio::runtime::Runtime, pfx: u64, a: &Attrs) -> rotonda::payload::RotondaRoute {
    let bytes = update_bytes(a, &[pfx], &[], true);
    let msg = routecore::bgp::message::UpdateMessage::from_octets(bytes, &routecore::bgp::message::SessionConfig::modern()).unwrap();
    let u = rt.block_on(rotonda::verif::bgp::verif_process_update(msg, bgp_provenance(7, 65000))).unwrap();
    match u {
        rotonda::payload::Update::Bulk(ps) => ps[0].rx_value.clone(),
        rotonda::payload::Update::Single(p) => p.rx_value.clone(),
        _ => panic!("no route"),
    }
}

pub fn special(name: &str, args: &[String]) -> bool {
    match name {
        // c10-src <kind> <prog tokens...>: print the Roto source of a program
        "c10-src" => {
            let toks: Vec<&str> = args[1..].iter().map(|s| s.as_str()).collect();
            let mut t = Toks::new(&toks);
            let p = t.prog();
            println!("{}", roto_source(&args[0], &p));
            true
        }
        // c10-probe <file>: compile a script, report which filters it has
        "c10-probe" => {
            match vf::Script::compile_file(&args[0]) {
                Ok(mut s) => println!("ok rib={} bgp={} bmp={}", s.rib_in_pre().is_some(), s.bgp_in().is_some(), s.bmp_in().is_some()),
                Err(e) => println!("compile error: {e}"),
            }
            true
        }
        _ => false,
    }
}
