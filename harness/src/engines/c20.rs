//! C20: the MRT queue endpoint (`units::mrt_file_in::api::Processor`) against a
//! real directory tree. Same case grammar as oracle/eng_c20.ml:
//!
//!   R <abs>            scratch root of this case; must be canonical and contain "/.cache/c20fs/"
//!   D <p> | F <p>      directory / regular file at <p> (relative to R, components %XX-decoded)
//!   L <p> <target>     symbolic link at <p>; target text %XX-decoded, '@' stands for R
//!   U <dir> | U -      configured update_path ('@' stands for R) or none
//!   Q <method> <rawpath> <rawquery|-> <mode>
//!                      one HTTP request; '@' in the query stands for R; mode = what the unit
//!                      answers on the oneshot: o ok, e error, d sender dropped, s silent (5 s timeout)
//!
//! A tree op whose parent is not a directory created before (or R itself), or
//! whose path exists already, or with an empty/'.'/'..' component, is ignored
//! (same rule in the oracle driver), so any subsequence of a case is a case.
//!
//! Observation per Q: `<status|none> <enqueued> why`
//!   enqueued = '-' or the comma separated list of what arrived on the queue, each resolved
//!   the way the unit's File::open would resolve it, relative to R ('.' for R itself),
//!   `OUT:<abs>` when outside R, `UNRES:<path>` when it does not resolve; each followed by
//!   `:c` when the enqueued path TEXT is byte for byte its own canonicalisation, else `:n`
//!   (the unit resolves the text again later: a non-canonical text names a location that can
//!   move between the endpoint's check and the unit's use).
use rotonda::verif::mrt::hyper::{Body, Request};
use rotonda::verif::mrt::{new_processor, ProcessRequest};
use std::collections::HashMap;
use std::ffi::OsString;
use std::os::unix::ffi::{OsStrExt, OsStringExt};
use std::path::{Path, PathBuf};

#[derive(Clone, Copy, PartialEq)]
enum Kind { Dir, File, Link }

fn hexval(b: u8) -> Option<u8> {
    match b { b'0'..=b'9' => Some(b - b'0'), b'a'..=b'f' => Some(b - b'a' + 10), b'A'..=b'F' => Some(b - b'A' + 10), _ => None }
}

/// %XX decoding of case-line text (glue, not the code under test).
fn unpct(s: &str) -> Vec<u8> {
    let b = s.as_bytes();
    let mut out = vec![];
    let mut i = 0;
    while i < b.len() {
        if b[i] == b'%' && i + 2 < b.len() {
            if let (Some(h), Some(l)) = (hexval(b[i + 1]), hexval(b[i + 2])) {
                out.push(h * 16 + l);
                i += 3;
                continue;
            }
        }
        out.push(b[i]);
        i += 1;
    }
    out
}

fn enc(bytes: &[u8]) -> String {
    let mut s = String::new();
    for &c in bytes {
        if c.is_ascii_alphanumeric() || b"._-/".contains(&c) { s.push(c as char) } else { s.push_str(&format!("%{:02X}", c)) }
    }
    s
}

fn subst_root(s: &str, root: &str) -> String { s.replace('@', root) }

/// components of a tree path: None if any is empty, '.', '..' or contains NUL
fn tree_comps(p: &str) -> Option<Vec<Vec<u8>>> {
    let mut v = vec![];
    for c in p.split('/') {
        let d = unpct(c);
        if d.is_empty() || d == b"." || d == b".." || d.contains(&0) || d.contains(&b'/') { return None; }
        v.push(d);
    }
    Some(v)
}

struct Tree { root: PathBuf, known: HashMap<Vec<Vec<u8>>, Kind> }

impl Tree {
    fn disk(&self, comps: &[Vec<u8>]) -> PathBuf {
        let mut p = self.root.clone();
        for c in comps { p.push(OsString::from_vec(c.clone())); }
        p
    }
    fn add(&mut self, p: &str, kind: Kind, target: Option<Vec<u8>>) {
        let comps = match tree_comps(p) { Some(c) => c, None => return };
        if self.known.contains_key(&comps) { return; }
        let parent = &comps[..comps.len() - 1];
        if !parent.is_empty() && self.known.get(parent) != Some(&Kind::Dir) { return; }
        let path = self.disk(&comps);
        match kind {
            Kind::Dir => std::fs::create_dir(&path).expect("mkdir"),
            Kind::File => std::fs::write(&path, b"x").expect("write"),
            Kind::Link => {
                let t = target.unwrap();
                if t.is_empty() || t.contains(&0) { return; }
                std::os::unix::fs::symlink(OsString::from_vec(t), &path).expect("symlink")
            }
        }
        self.known.insert(comps, kind);
    }
}

fn safe_root(r: &str) -> bool {
    r.starts_with('/') && r.contains("/.cache/c20fs/") && !r.split('/').any(|c| c == ".." || c == ".") && !r.ends_with('/')
}

thread_local! {
    static RT: tokio::runtime::Runtime = tokio::runtime::Builder::new_current_thread()
        .enable_time().start_paused(true).build().unwrap();
}

fn show_enqueued(p: &Path, root: &Path) -> String {
    match std::fs::canonicalize(p) {
        Err(_) => format!("UNRES:{}:n", enc(p.as_os_str().as_bytes())),
        Ok(c) => {
            // is the TEXT that was enqueued already canonical (byte for byte its own
            // canonicalisation: no symlink, '.', '..', doubled or trailing '/' in it)?
            let flag = if c.as_os_str().as_bytes() == p.as_os_str().as_bytes() { "c" } else { "n" };
            let loc = match c.strip_prefix(root) {
                Ok(rel) if rel.as_os_str().is_empty() => ".".to_string(),
                Ok(rel) => enc(rel.as_os_str().as_bytes()),
                Err(_) => format!("OUT:{}", enc(c.as_os_str().as_bytes())),
            };
            format!("{loc}:{flag}")
        }
    }
}

fn request(root: &Path, update: &Option<PathBuf>, method: &str, rawpath: &str, rawquery: &str, mode: &str) -> String {
    let uri = if rawquery == "-" { rawpath.to_string() } else { format!("{rawpath}?{rawquery}") };
    let req = match Request::builder().method(method).uri(uri).body(Body::empty()) {
        Ok(r) => r,
        Err(_) => return "BADURI - why".to_string(),
    };
    let (proc_, mut qrx) = new_processor("u", update.clone(), 16);
    let mode = mode.to_string();
    let (resp, got) = RT.with(|rt| {
        rt.block_on(async move {
            let unit = async {
                let mut got: Vec<PathBuf> = vec![];
                let mut held = vec![];
                while let Some((p, tx)) = qrx.recv().await {
                    got.push(p);
                    if let Some(tx) = tx {
                        match mode.as_str() {
                            "e" => { let _ = tx.send(Err("unit says no".to_string())); }
                            "d" => drop(tx),
                            "s" => held.push(tx),
                            _ => { let _ = tx.send(Ok("OK!".to_string())); }
                        }
                    }
                }
                drop(held);
                got
            };
            let http = async {
                let r = proc_.process_request(&req).await;
                drop(proc_); // closes the queue, ends `unit`
                r
            };
            tokio::join!(http, unit)
        })
    });
    let st = match resp { None => "none".to_string(), Some(r) => r.status().as_u16().to_string() };
    let enq = if got.is_empty() { "-".to_string() } else { got.iter().map(|p| show_enqueued(p, root)).collect::<Vec<_>>().join(",") };
    format!("{st} {enq} why")
}

pub fn run_case(line: &str) -> String {
    let ops: Vec<Vec<&str>> = line.split(';').map(|s| s.split_whitespace().collect::<Vec<_>>()).filter(|v| !v.is_empty()).collect();
    let root = match ops.iter().find(|o| o[0] == "R" && o.len() == 2) { Some(o) => o[1].to_string(), None => return "BADCASE".into() };
    if !safe_root(&root) { return "BADCASE".into(); }
    let rootp = PathBuf::from(&root);
    let _ = std::fs::remove_dir_all(&rootp);
    std::fs::create_dir_all(&rootp).expect("create root");
    if std::fs::canonicalize(&rootp).ok().as_deref() != Some(rootp.as_path()) { return "BADROOT".into(); }
    let old_cwd = std::env::current_dir().ok();
    std::env::set_current_dir(&rootp).expect("chdir");
    let res = std::panic::catch_unwind(std::panic::AssertUnwindSafe(|| {
        let mut tree = Tree { root: rootp.clone(), known: HashMap::new() };
        let mut update: Option<PathBuf> = None;
        let mut out: Vec<String> = vec![];
        for op in &ops {
            match (op[0], op.len()) {
                ("R", _) => {}
                ("D", 2) => tree.add(op[1], Kind::Dir, None),
                ("F", 2) => tree.add(op[1], Kind::File, None),
                ("L", 3) => tree.add(op[1], Kind::Link, Some(unpct(&subst_root(op[2], &root)))),
                ("U", 2) => {
                    update = if op[1] == "-" { None } else { Some(PathBuf::from(OsString::from_vec(unpct(&subst_root(op[1], &root))))) }
                }
                ("Q", 5) => out.push(request(&rootp, &update, op[1], op[2], &subst_root(op[3], &root), op[4])),
                _ => out.push("BADOP".into()),
            }
        }
        out.join(" ")
    }));
    if let Some(c) = old_cwd { let _ = std::env::set_current_dir(c); } else { let _ = std::env::set_current_dir("/"); }
    let _ = std::fs::remove_dir_all(&rootp);
    match res { Ok(s) => s, Err(e) => std::panic::resume_unwind(e) }
}

pub fn special(_name: &str, _args: &[String]) -> bool { false }
