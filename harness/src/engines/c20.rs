//! C20: the MRT queue endpoint (`units::mrt_file_in::api::Processor`) against a
//! real directory tree THAT CHANGES WHILE THE PROCESSOR LIVES. Same case grammar as
//! oracle/eng_c20.ml:
//!
//!   R <abs>            scratch root of this case; must be canonical and contain "/.cache/c20fs/"
//!   D <p> | F <p>      directory / regular file at <p> (relative to R, components %XX-decoded)
//!   L <p> <target>     symbolic link at <p>; target text %XX-decoded, '@' stands for R
//!   P <p> <target>     re-point the symbolic link at <p> (a new link is renamed over it, as `ln -sfn` does)
//!   X <p>              remove <p> (a directory with everything below it)
//!   M <p> <q>          rename <p> to the unused name <q>
//!   U <dir> | U -      build the processor (Processor::new) with this update_path ('@' stands for R)
//!                      or with none; the one built last serves all following requests
//!   Q <method> <rawpath> <rawquery|-> <mode>
//!                      one HTTP request to the processor built by the last U; '@' in the query stands
//!                      for R; mode = what the unit answers on the oneshot: o ok, e error, d sender
//!                      dropped, s silent (5 s timeout)
//!
//! Every op is one event of a history, carried out in order: tree ops may stand anywhere,
//! also between requests, and they act on the real directory while ONE long-lived Processor
//! (and its queue) stays in place - a processor that keeps anything about the tree from the
//! time it was built, or from an earlier request, answers from the past.
//!
//! <p>, <q> are PHYSICAL paths: every component before the last must be a real directory
//! (lstat), never a symbolic link. A tree op that the file system would refuse (parent missing
//! or not a real directory, name taken, name absent, a directory moved into itself, not a link,
//! an empty/'.'/'..' component, an empty target) is skipped (same rule in the model, pc_apply),
//! so any subsequence of a case is a case.
//!
//! Observation per Q: `<status|none> <enqueued> why`
//!   enqueued = '-' or the comma separated list of what arrived on the queue, each resolved
//!   the way the unit's File::open would resolve it (right after the request, the tree as the
//!   request saw it), relative to R ('.' for R itself),
//!   `OUT:<abs>` when outside R, `UNRES:<path>` when it does not resolve; each followed by
//!   `:c` when the enqueued path TEXT is byte for byte its own canonicalisation, else `:n`
//!   (the unit resolves the text again later: a non-canonical text names a location that can
//!   move between the endpoint's check and the unit's use).
use rotonda::verif::mrt::hyper::{Body, Request};
use rotonda::verif::mrt::{new_processor, ProcessRequest, Processor, QueueEntry};
use std::ffi::OsString;
use std::os::unix::ffi::{OsStrExt, OsStringExt};
use std::path::{Path, PathBuf};

#[derive(Clone, Copy, PartialEq)]
enum Kind { Dir, File, Link }

fn hexval(b: u8) -> Option<u8> {
    match b { b'0'..=b'9' => Some(b - b'0'), b'a'..=b'f' => Some(b - b'a' + 10), b'A'..=b'F' => Some(b - b'A' + 10), _ => None }
}

/// %XX decoding of case-line text (glue, not the code under test).
fn unpct(s: &str) -> Vec<u8> {
    let b = s.as_bytes();
    let mut out = vec![];
    let mut i = 0;
    while i < b.len() {
        if b[i] == b'%' && i + 2 < b.len() {
            if let (Some(h), Some(l)) = (hexval(b[i + 1]), hexval(b[i + 2])) {
                out.push(h * 16 + l);
                i += 3;
                continue;
            }
        }
        out.push(b[i]);
        i += 1;
    }
    out
}

fn enc(bytes: &[u8]) -> String {
    let mut s = String::new();
    for &c in bytes {
        if c.is_ascii_alphanumeric() || b"._-/".contains(&c) { s.push(c as char) } else { s.push_str(&format!("%{:02X}", c)) }
    }
    s
}

fn subst_root(s: &str, root: &str) -> String { s.replace('@', root) }

/// components of a tree path: None if any is empty, '.', '..' or contains NUL
fn tree_comps(p: &str) -> Option<Vec<Vec<u8>>> {
    let mut v = vec![];
    for c in p.split('/') {
        let d = unpct(c);
        if d.is_empty() || d == b"." || d == b".." || d.contains(&0) || d.contains(&b'/') { return None; }
        v.push(d);
    }
    Some(v)
}

struct Tree { root: PathBuf }

impl Tree {
    fn disk(&self, comps: &[Vec<u8>]) -> PathBuf {
        let mut p = self.root.clone();
        for c in comps { p.push(OsString::from_vec(c.clone())); }
        p
    }
    /// what is at the physical path `comps` ON DISK right now: None if it does not exist or
    /// if some component before the last is not a real directory (lstat, no link followed)
    fn kind_at(&self, comps: &[Vec<u8>]) -> Option<Kind> {
        let mut p = self.root.clone();
        for (i, c) in comps.iter().enumerate() {
            p.push(OsString::from_vec(c.clone()));
            let ft = std::fs::symlink_metadata(&p).ok()?.file_type();
            let kind = if ft.is_symlink() { Kind::Link } else if ft.is_dir() { Kind::Dir } else { Kind::File };
            if i + 1 == comps.len() { return Some(kind); }
            if kind != Kind::Dir { return None; }
        }
        Some(Kind::Dir) // the scratch root itself
    }
    fn parent_is_dir(&self, comps: &[Vec<u8>]) -> bool { self.kind_at(&comps[..comps.len() - 1]) == Some(Kind::Dir) }

    fn create(&mut self, p: &str, kind: Kind, target: Option<Vec<u8>>) {
        let comps = match tree_comps(p) { Some(c) => c, None => return };
        if let Some(t) = &target { if t.is_empty() || t.contains(&0) { return; } }
        if !self.parent_is_dir(&comps) || self.kind_at(&comps).is_some() { return; }
        let path = self.disk(&comps);
        match kind {
            Kind::Dir => std::fs::create_dir(&path).expect("mkdir"),
            Kind::File => std::fs::write(&path, b"x").expect("write"),
            Kind::Link => std::os::unix::fs::symlink(OsString::from_vec(target.unwrap()), &path).expect("symlink"),
        }
    }
    fn remove(&mut self, p: &str) {
        let comps = match tree_comps(p) { Some(c) => c, None => return };
        let path = self.disk(&comps);
        match self.kind_at(&comps) {
            None => {}
            Some(Kind::Dir) => std::fs::remove_dir_all(&path).expect("rm -r"),
            Some(_) => std::fs::remove_file(&path).expect("unlink"),
        }
    }
    fn rename(&mut self, p: &str, q: &str) {
        let (from, to) = match (tree_comps(p), tree_comps(q)) { (Some(a), Some(b)) => (a, b), _ => return };
        if to.len() >= from.len() && to[..from.len()] == from[..] { return; } // onto itself / into itself
        if self.kind_at(&from).is_none() || !self.parent_is_dir(&to) || self.kind_at(&to).is_some() { return; }
        std::fs::rename(self.disk(&from), self.disk(&to)).expect("rename");
    }
    /// re-point a symbolic link the way `ln -sfn` does: make the new link under a spare name,
    /// rename it over the old one (the name never disappears)
    fn repoint(&mut self, p: &str, target: Vec<u8>) {
        let comps = match tree_comps(p) { Some(c) => c, None => return };
        if target.is_empty() || target.contains(&0) { return; }
        if self.kind_at(&comps) != Some(Kind::Link) { return; }
        let path = self.disk(&comps);
        let mut spare = comps.clone();
        spare.pop();
        spare.push(b".c20-repoint-spare".to_vec());
        let spare = self.disk(&spare);
        let _ = std::fs::remove_file(&spare);
        std::os::unix::fs::symlink(OsString::from_vec(target), &spare).expect("symlink");
        std::fs::rename(&spare, &path).expect("rename over link");
    }
}

fn safe_root(r: &str) -> bool {
    r.starts_with('/') && r.contains("/.cache/c20fs/") && !r.split('/').any(|c| c == ".." || c == ".") && !r.ends_with('/')
}

thread_local! {
    static RT: tokio::runtime::Runtime = tokio::runtime::Builder::new_current_thread()
        .enable_time().start_paused(true).build().unwrap();
}

fn show_enqueued(p: &Path, root: &Path) -> String {
    match std::fs::canonicalize(p) {
        Err(_) => format!("UNRES:{}:n", enc(p.as_os_str().as_bytes())),
        Ok(c) => {
            // is the TEXT that was enqueued already canonical (byte for byte its own
            // canonicalisation: no symlink, '.', '..', doubled or trailing '/' in it)?
            let flag = if c.as_os_str().as_bytes() == p.as_os_str().as_bytes() { "c" } else { "n" };
            let loc = match c.strip_prefix(root) {
                Ok(rel) if rel.as_os_str().is_empty() => ".".to_string(),
                Ok(rel) => enc(rel.as_os_str().as_bytes()),
                Err(_) => format!("OUT:{}", enc(c.as_os_str().as_bytes())),
            };
            format!("{loc}:{flag}")
        }
    }
}

/// The processor built by the last `U`, with the receiving end of its queue. Both live until
/// the next `U` or the end of the case; nothing is rebuilt per request.
struct Unit { processor: Processor, queue: tokio::sync::mpsc::Receiver<QueueEntry> }

fn request(root: &Path, unit: &mut Unit, method: &str, rawpath: &str, rawquery: &str, mode: &str) -> String {
    let uri = if rawquery == "-" { rawpath.to_string() } else { format!("{rawpath}?{rawquery}") };
    let req = match Request::builder().method(method).uri(uri).body(Body::empty()) {
        Ok(r) => r,
        Err(_) => return "BADURI - why".to_string(),
    };
    let Unit { processor, queue } = unit;
    let (resp, got) = RT.with(|rt| {
        rt.block_on(async {
            // plays the unit's queue loop for as long as this request runs
            let mut got: Vec<PathBuf> = vec![];
            let mut held = vec![];
            let http = processor.process_request(&req);
            tokio::pin!(http);
            let resp = loop {
                tokio::select! {
                    biased;
                    r = &mut http => break r,
                    Some((p, tx)) = queue.recv() => {
                        got.push(p);
                        if let Some(tx) = tx {
                            match mode {
                                "e" => { let _ = tx.send(Err("unit says no".to_string())); }
                                "d" => drop(tx),
                                "s" => held.push(tx),
                                _ => { let _ = tx.send(Ok("OK!".to_string())); }
                            }
                        }
                    }
                }
            };
            while let Ok((p, _tx)) = queue.try_recv() { got.push(p); }
            drop(held);
            (resp, got)
        })
    });
    let st = match resp { None => "none".to_string(), Some(r) => r.status().as_u16().to_string() };
    let enq = if got.is_empty() { "-".to_string() } else { got.iter().map(|p| show_enqueued(p, root)).collect::<Vec<_>>().join(",") };
    format!("{st} {enq} why")
}

pub fn run_case(line: &str) -> String {
    let ops: Vec<Vec<&str>> = line.split(';').map(|s| s.split_whitespace().collect::<Vec<_>>()).filter(|v| !v.is_empty()).collect();
    let root = match ops.iter().find(|o| o[0] == "R" && o.len() == 2) { Some(o) => o[1].to_string(), None => return "BADCASE".into() };
    if !safe_root(&root) { return "BADCASE".into(); }
    let rootp = PathBuf::from(&root);
    let _ = std::fs::remove_dir_all(&rootp);
    std::fs::create_dir_all(&rootp).expect("create root");
    if std::fs::canonicalize(&rootp).ok().as_deref() != Some(rootp.as_path()) { return "BADROOT".into(); }
    let old_cwd = std::env::current_dir().ok();
    std::env::set_current_dir(&rootp).expect("chdir");
    let res = std::panic::catch_unwind(std::panic::AssertUnwindSafe(|| {
        let mut tree = Tree { root: rootp.clone() };
        // before any U the unit runs without an update_path
        let build = |update: Option<PathBuf>| { let (processor, queue) = new_processor("u", update, 16); Unit { processor, queue } };
        let mut unit = build(None);
        let mut out: Vec<String> = vec![];
        let target = |t: &str| unpct(&subst_root(t, &root));
        for op in &ops {
            match (op[0], op.len()) {
                ("R", _) => {}
                ("D", 2) => tree.create(op[1], Kind::Dir, None),
                ("F", 2) => tree.create(op[1], Kind::File, None),
                ("L", 3) => tree.create(op[1], Kind::Link, Some(target(op[2]))),
                ("P", 3) => tree.repoint(op[1], target(op[2])),
                ("X", 2) => tree.remove(op[1]),
                ("M", 3) => tree.rename(op[1], op[2]),
                // Processor::new, in the tree as it is at this point of the history
                ("U", 2) => unit = build(if op[1] == "-" { None } else { Some(PathBuf::from(OsString::from_vec(target(op[1])))) }),
                ("Q", 5) => out.push(request(&rootp, &mut unit, op[1], op[2], &subst_root(op[3], &root), op[4])),
                _ => out.push("BADOP".into()),
            }
        }
        out.join(" ")
    }));
    if let Some(c) = old_cwd { let _ = std::env::set_current_dir(c); } else { let _ = std::env::set_current_dir("/"); }
    let _ = std::fs::remove_dir_all(&rootp);
    match res { Ok(s) => s, Err(e) => std::panic::resume_unwind(e) }
}

pub fn special(_name: &str, _args: &[String]) -> bool { false }
