//! C19: HTML status pages and Prometheus labels of the BMP unit.
//! Same case grammar as oracle/eng_c19.ml. The real state machine is fed a
//! real Initiation message (TLV bytes as given), the real request processors
//! render the pages; this file only tokenises what they return.
use bytes::Bytes;
use rotonda::verif::bmp_http::{prometheus_router_line, HttpFixture};
use std::net::{IpAddr, Ipv4Addr};

// ---------------------------------------------------------------- fields
pub struct Field {
    pub wire: Vec<u8>,   // bytes put into the TLV / request
    pub text: Vec<u32>,  // their (lossy) decoding, as the case line claims
}

fn cps(t: &str) -> Vec<u32> {
    if t.is_empty() { vec![] } else { t.split('.').map(|h| u32::from_str_radix(h, 16).unwrap()).collect() }
}
fn string_of(cps: &[u32]) -> String {
    cps.iter().map(|c| char::from_u32(*c).expect("scalar value")).collect()
}
pub fn field(t: &str) -> Field {
    match t.as_bytes()[0] {
        b'u' => {
            let text = cps(&t[1..]);
            Field { wire: string_of(&text).into_bytes(), text }
        }
        b'b' => {
            let (h, c) = t[1..].split_once(':').expect("b field without ':'");
            let wire = (0..h.len() / 2).map(|i| u8::from_str_radix(&h[2 * i..2 * i + 2], 16).unwrap()).collect();
            Field { wire, text: cps(c) }
        }
        _ => panic!("bad field {t}"),
    }
}
fn fields(t: &str) -> Vec<Field> {
    if t == "-" { vec![] } else { t.split(',').map(field).collect() }
}
fn addr(t: &str) -> Option<IpAddr> {
    if t == "-" { None } else { Some(IpAddr::V4(t.parse::<Ipv4Addr>().unwrap())) }
}

// ---------------------------------------------------------------- BMP encoding (RFC 7854 4.1, 4.3, 4.4)
fn initiation(names: &[Field], descs: &[Field], extras: &[Field]) -> Bytes {
    let mut body: Vec<u8> = vec![];
    let mut tlv = |typ: u16, v: &[u8]| {
        body.extend_from_slice(&typ.to_be_bytes());
        body.extend_from_slice(&(v.len() as u16).to_be_bytes());
        body.extend_from_slice(v);
    };
    for f in names { tlv(2, &f.wire) }
    for f in extras { tlv(0, &f.wire) }
    for f in descs { tlv(1, &f.wire) }
    let mut msg = vec![3u8];
    msg.extend_from_slice(&((6 + body.len()) as u32).to_be_bytes());
    msg.push(4);
    msg.extend_from_slice(&body);
    Bytes::from(msg)
}

// ---------------------------------------------------------------- canonical printing (mirrors eng_c19.ml)
pub fn enc(s: &[u32]) -> String {
    let mut b = String::new();
    for &c in s {
        let lit = (48..=57).contains(&c) || (65..=90).contains(&c) || (97..=122).contains(&c)
            || c == 45 || c == 95 || c == 46 || c == 47 || c == 58 || c == 61;
        if lit { b.push(char::from_u32(c).unwrap()) } else { b.push_str(&format!("%{:x};", c)) }
    }
    if b.is_empty() { "~".into() } else { b }
}
fn u32s(s: &str) -> Vec<u32> { s.chars().map(|c| c as u32).collect() }

// the tokenizer of EscapeModel.v (tok_step), ported
#[derive(Clone, Copy, PartialEq)]
enum Mode { Data, TagName, BeforeAttr, AttrName, BeforeVal, AttrDQ, AttrSQ, AttrUQ }
pub enum Ev { Text(u32), Tag(Vec<u32>, Vec<(Vec<u32>, Vec<u32>)>) }

fn is_ws(c: u32) -> bool { c == 32 || c == 9 || c == 10 || c == 12 || c == 13 }

pub fn tokenise(page: &[u32]) -> Vec<Ev> {
    let mut evs = vec![];
    let mut mode = Mode::Data;
    let (mut nm, mut attrs, mut an, mut av): (Vec<u32>, Vec<(Vec<u32>, Vec<u32>)>, Vec<u32>, Vec<u32>) = (vec![], vec![], vec![], vec![]);
    macro_rules! close { ($extra:expr) => {{
        let mut a = std::mem::take(&mut attrs);
        if let Some(x) = $extra { a.push(x); }
        evs.push(Ev::Tag(std::mem::take(&mut nm), a));
        an.clear(); av.clear();
        mode = Mode::Data;
    }}; }
    for &c in page {
        match mode {
            Mode::Data => if c == 60 { mode = Mode::TagName; nm.clear(); attrs.clear(); an.clear(); av.clear(); } else { evs.push(Ev::Text(c)) },
            Mode::TagName => if c == 62 { close!(None::<(Vec<u32>, Vec<u32>)>) } else if is_ws(c) { mode = Mode::BeforeAttr } else { nm.push(c) },
            Mode::BeforeAttr => if c == 62 { close!(None::<(Vec<u32>, Vec<u32>)>) } else if is_ws(c) {} else { mode = Mode::AttrName; an = vec![c]; av.clear() },
            Mode::AttrName => if c == 61 { mode = Mode::BeforeVal } else if c == 62 { close!(Some((std::mem::take(&mut an), vec![]))) }
                else if is_ws(c) { attrs.push((std::mem::take(&mut an), vec![])); mode = Mode::BeforeAttr } else { an.push(c) },
            Mode::BeforeVal => if c == 34 { mode = Mode::AttrDQ; av.clear() } else if c == 39 { mode = Mode::AttrSQ; av.clear() }
                else if c == 62 { close!(Some((std::mem::take(&mut an), vec![]))) } else if is_ws(c) {} else { mode = Mode::AttrUQ; av = vec![c] },
            Mode::AttrDQ => if c == 34 { attrs.push((std::mem::take(&mut an), std::mem::take(&mut av))); mode = Mode::BeforeAttr } else { av.push(c) },
            Mode::AttrSQ => if c == 39 { attrs.push((std::mem::take(&mut an), std::mem::take(&mut av))); mode = Mode::BeforeAttr } else { av.push(c) },
            Mode::AttrUQ => if c == 62 { close!(Some((std::mem::take(&mut an), std::mem::take(&mut av)))) }
                else if is_ws(c) { attrs.push((std::mem::take(&mut an), std::mem::take(&mut av))); mode = Mode::BeforeAttr } else { av.push(c) },
        }
    }
    evs
}

// unescape of EscapeModel.v, ported
fn ent_value(buf: &[u32]) -> Option<u32> {
    let s: String = buf.iter().filter_map(|c| char::from_u32(*c)).collect();
    match s.as_str() {
        "amp" => return Some(38), "lt" => return Some(60), "gt" => return Some(62), "quot" => return Some(34), "apos" => return Some(39),
        _ => {}
    }
    let num = |digits: &[u32], base: u64| -> Option<u32> {
        let mut acc: u64 = 0;
        for &c in digits {
            let d = match c { 48..=57 => c - 48, 65..=70 => c - 55, 97..=102 => c - 87, _ => return None } as u64;
            if d >= base { return None }
            acc = acc.checked_mul(base)?.checked_add(d)?;
            if acc > u32::MAX as u64 { return None }
        }
        Some(acc as u32)
    };
    if buf.len() >= 3 && buf[0] == 35 && (buf[1] == 120 || buf[1] == 88) { return num(&buf[2..], 16) }
    if buf.len() >= 2 && buf[0] == 35 { return num(&buf[1..], 10) }
    None
}
pub fn unescape(s: &[u32]) -> Vec<u32> {
    let mut out = vec![];
    let mut p: Option<Vec<u32>> = None;
    for &c in s {
        match p.take() {
            None => if c == 38 { p = Some(vec![]) } else { out.push(c) },
            Some(mut buf) => {
                if c == 59 {
                    match ent_value(&buf) { Some(v) => out.push(v), None => { out.push(38); out.extend(buf); out.push(c) } }
                } else if c == 38 { out.push(38); out.extend(buf); p = Some(vec![]) }
                else if (48..=57).contains(&c) || (65..=90).contains(&c) || (97..=122).contains(&c) || c == 35 { buf.push(c); p = Some(buf) }
                else { out.push(38); out.extend(buf); out.push(c) }
            }
        }
    }
    if let Some(buf) = p { out.push(38); out.extend(buf) }
    out
}

fn chunk_str(evs: &[&Ev]) -> String {
    let mut tags = vec![];
    let mut vals = vec![];
    for e in evs {
        if let Ev::Tag(nm, attrs) = e {
            let an: Vec<String> = attrs.iter().map(|(a, _)| enc(a)).collect();
            tags.push(if an.is_empty() { enc(nm) } else { format!("{}[{}]", enc(nm), an.join("+")) });
            for (_, v) in attrs { vals.push(enc(&unescape(v))) }
        }
    }
    format!("T={};A={}", tags.join(","), vals.join(","))
}
fn is_tag(e: &Ev, name: &str) -> bool { matches!(e, Ev::Tag(nm, _) if *nm == u32s(name)) }

pub fn canon(evs: &[Ev]) -> Vec<String> {
    let cut = evs.iter().rposition(|e| is_tag(e, "/table")).unwrap_or(evs.len());
    let (body, tail) = evs.split_at(cut);
    let mut chunks: Vec<Vec<&Ev>> = vec![vec![]];
    for e in body {
        if is_tag(e, "tr") { chunks.push(vec![e]) } else { chunks.last_mut().unwrap().push(e) }
    }
    let mut out = vec![chunk_str(&chunks[0])];
    let mut rows: Vec<String> = chunks[1..].iter().map(|c| chunk_str(c)).collect();
    rows.sort();
    out.extend(rows);
    out.push(chunk_str(&tail.iter().collect::<Vec<_>>()));
    out
}
fn contains(pat: &[u32], s: &[u32]) -> bool {
    pat.is_empty() || s.windows(pat.len()).any(|w| w == pat)
}
pub fn show_page(prefix: &str, body: &[u8], needles: &[Vec<u32>]) -> String {
    let page = match std::str::from_utf8(body) { Ok(s) => u32s(s), Err(_) => return format!("{prefix}:NOT-UTF8") };
    let evs = tokenise(&page);
    let text: Vec<u32> = evs.iter().filter_map(|e| if let Ev::Text(c) = e { Some(*c) } else { None }).collect();
    let text = unescape(&text);
    let mut v = vec![prefix.to_string()];
    v.extend(canon(&evs));
    v.push(format!("H={}", needles.iter().map(|n| if contains(n, &text) { '1' } else { '0' }).collect::<String>()));
    v.join(" ")
}

// ---------------------------------------------------------------- the engine
struct Rt { id: u32, tlvs: Option<(Vec<u32>, Vec<u32>, Vec<u32>)>, label: String }

fn joined(fs: &[Field]) -> Vec<u32> {
    let mut v = vec![];
    for (i, f) in fs.iter().enumerate() { if i > 0 { v.push(124) } v.extend(&f.text) }
    v
}
fn pct(path: &[u8]) -> String {
    let mut s = String::new();
    for &b in path {
        if b.is_ascii_alphanumeric() || b"-._~/".contains(&b) { s.push(b as char) } else { s.push_str(&format!("%{:02X}", b)) }
    }
    s
}
fn trunc60(s: &[u32]) -> Vec<u32> { s.iter().take(60).copied().collect() }

// exposition format reader: labels of one sample line
fn parse_sample(line: &str) -> Option<Vec<(String, String)>> {
    let open = match line.find('{') { Some(i) => i, None => return Some(vec![]) };
    let mut labels = vec![];
    let cs: Vec<char> = line[open + 1..].chars().collect();
    let mut i = 0;
    loop {
        if i < cs.len() && cs[i] == '}' && labels.is_empty() { i += 1; break }
        let mut name = String::new();
        while i < cs.len() && (cs[i].is_ascii_alphanumeric() || cs[i] == '_') { name.push(cs[i]); i += 1 }
        if name.is_empty() || i + 1 >= cs.len() || cs[i] != '=' || cs[i + 1] != '"' { return None }
        i += 2;
        let mut v = String::new();
        loop {
            if i >= cs.len() { return None }
            match cs[i] {
                '"' => { i += 1; break }
                '\\' => { i += 1; if i >= cs.len() { return None } match cs[i] { 'n' => v.push('\n'), '"' => v.push('"'), '\\' => v.push('\\'), _ => return None } i += 1 }
                c => { v.push(c); i += 1 }
            }
        }
        labels.push((name, v));
        if i < cs.len() && cs[i] == ',' { i += 1; continue }
        if i < cs.len() && cs[i] == '}' { i += 1; break }
        return None
    }
    // after the label set: a space and a value without further structure
    let rest: String = cs[i..].iter().collect();
    let rest = rest.strip_prefix(' ')?;
    if rest.is_empty() || rest.contains(' ') || rest.contains('"') || rest.contains('{') { return None }
    Some(labels)
}

pub fn run_ops(line: &str, raw: bool) -> String {
    let rt = tokio::runtime::Builder::new_current_thread().enable_all().build().unwrap();
    let mut api: Vec<u8> = b"/routers/".to_vec();
    let mut tpl = "{sys_name}".to_string();
    let mut fx: Option<HttpFixture> = None;
    let mut routers: Vec<Rt> = vec![];
    // parse errors are kept per router id (label); routers with one label share them
    let mut errs: std::collections::HashMap<String, Vec<Vec<u32>>> = Default::default();
    let mut out: Vec<String> = vec![];
    for op in crate::util::ops(line) {
        if op[0] == "C" {
            api = field(op[1]).wire;
            tpl = String::from_utf8(field(op[2]).wire).unwrap();
            continue;
        }
        let api_s = String::from_utf8(api.clone()).unwrap();
        let f = fx.get_or_insert_with(|| HttpFixture::new(&api_s, &tpl));
        match op[0] {
            "R" | "N" => {
                let id = f.add_router(addr(op[1]));
                let label = rt.block_on(f.router_id(id)).unwrap_or_default();
                let mut r = Rt { id, tlvs: None, label };
                if op[0] == "R" {
                    let (ns, ds, es) = (fields(op[2]), fields(op[3]), fields(op[4]));
                    let ok = rt.block_on(f.feed(id, initiation(&ns, &ds, &es)));
                    let want = (joined(&ns), joined(&ds), joined(&es));
                    // the case line's claim about the lossy decoding is checked against the state machine
                    match rt.block_on(f.sys_strings(id)) {
                        Some((n, d, e)) if ok => {
                            if u32s(&n) != want.0 || u32s(&d) != want.1 || u32s(&e.join("|")) != want.2 { out.push("DECODE-MISMATCH".into()) }
                        }
                        _ => out.push("R:NOT-INITIATED".into()),
                    }
                    r.tlvs = Some(want);
                }
                routers.push(r);
            }
            "E" => {
                let k: usize = op[1].parse().unwrap();
                let fld = field(op[3]);
                let id = routers[k].id;
                rt.block_on(f.report_parse_error(id, string_of(&fld.text), None, op[2] == "s"));
                errs.entry(routers[k].label.clone()).or_default().push(fld.text);
            }
            "P" => {
                let k: usize = op[1].parse().unwrap();
                if routers[k].tlvs.is_some() {
                    let pph = rotonda::bgp::encode::mk_per_peer_header(op[2], op[3].parse().unwrap());
                    let msg = rotonda::bgp::encode::mk_peer_up_notification_msg(
                        &pph, "10.0.0.1".parse().unwrap(), 11019, 4567, 111, 222, 0, 0, vec![], false);
                    rt.block_on(f.feed(routers[k].id, msg));
                }
            }
            "L" => {
                let uri = pct(&api);
                let res = std::panic::catch_unwind(std::panic::AssertUnwindSafe(|| rt.block_on(f.get_list_full(&uri))));
                match res {
                    Err(_) => out.push("Lpanic".into()),
                    Ok(None) => out.push("L-".into()),
                    Ok(Some((st, ct, body))) => {
                        if raw { out.push(hex(&body)); continue }
                        let needles: Vec<Vec<u32>> = routers.iter().filter_map(|r| r.tlvs.as_ref())
                            .flat_map(|(n, d, _)| [trunc60(n), trunc60(d)]).collect();
                        out.push(show_page(&format!("L{st}:{}", ctype_class(&ct)), &body, &needles));
                    }
                }
            }
            "I" => {
                let k: usize = op[1].parse().unwrap();
                let mut path = api.clone();
                path.extend(field(op[2]).wire);
                let uri = pct(&path);
                let id = routers[k].id;
                let res = std::panic::catch_unwind(std::panic::AssertUnwindSafe(|| rt.block_on(f.get_info_full(id, &uri))));
                match res {
                    Err(_) => out.push("Ipanic".into()),
                    Ok(None) => out.push("I-".into()),
                    Ok(Some((st, ct, body))) => {
                        if raw { out.push(hex(&body)); continue }
                        let r = &routers[k];
                        let (n, d, e) = r.tlvs.clone().unwrap_or_default();
                        let mut needles = vec![n, d, e];
                        let es = errs.get(&r.label).cloned().unwrap_or_default();
                        let skip = es.len().saturating_sub(10);
                        needles.extend(es[skip..].iter().cloned());
                        out.push(show_page(&format!("I{st}:{}", ctype_class(&ct)), &body, &needles));
                    }
                }
            }
            "Q" => {
                // GET <api>?n=v&n=v..: every byte of a name / value that is not alphanumeric is percent-encoded
                let enc_q = |b: &[u8]| -> String { b.iter().map(|&c| if c.is_ascii_alphanumeric() { (c as char).to_string() } else { format!("%{:02X}", c) }).collect() };
                let flds: Vec<Field> = op[1..].iter().map(|t| field(t)).collect();
                let pairs: Vec<String> = flds.chunks(2).map(|nv| format!("{}={}", enc_q(&nv[0].wire), enc_q(&nv[1].wire))).collect();
                let uri = format!("{}?{}", pct(&api), pairs.join("&"));
                let res = std::panic::catch_unwind(std::panic::AssertUnwindSafe(|| rt.block_on(f.get_list_full(&uri))));
                match res {
                    Err(_) => out.push("Qpanic".into()),
                    Ok(None) => out.push("Q-".into()),
                    Ok(Some((st, ct, body))) => {
                        if raw { if st == 200 { out.push(hex(&body)) } continue }
                        let class = ctype_class(&ct);
                        if st == 200 {
                            let needles: Vec<Vec<u32>> = routers.iter().filter_map(|r| r.tlvs.as_ref())
                                .flat_map(|(n, d, _)| [trunc60(n), trunc60(d)]).collect();
                            out.push(show_page(&format!("Q200:{class}"), &body, &needles));
                        } else {
                            // an error answer: which of the request's values does it quote, and can a client take it for markup?
                            let text = match std::str::from_utf8(&body) { Ok(s) => u32s(s), Err(_) => { out.push(format!("Q{st}:NOT-UTF8")); continue } };
                            let quoted: Vec<&Field> = flds.chunks(2).map(|nv| &nv[1]).collect();
                            if class == "plain" {
                                // the value the answer is about: the first one it contains verbatim
                                let h = quoted.iter().any(|q| contains(&q.text, &text));
                                out.push(format!("Q{st}:plain H={}", if h { '1' } else { '0' }));
                            } else {
                                let evs = tokenise(&text);
                                let shown: Vec<u32> = unescape(&evs.iter().filter_map(|e| if let Ev::Text(c) = e { Some(*c) } else { None }).collect::<Vec<_>>());
                                let h = quoted.iter().any(|q| contains(&q.text, &shown));
                                out.push(format!("Q{st}:markup[{}] H={}", chunk_str(&evs.iter().collect::<Vec<_>>()), if h { '1' } else { '0' }));
                            }
                        }
                    }
                }
            }
            "M" => {
                if raw { continue }
                let text = f.metrics_prometheus("u");
                let mut labels: Vec<String> = vec![];
                let mut bad = 0;
                for l in text.lines().filter(|l| !l.starts_with('#') && !l.is_empty()) {
                    match parse_sample(l) {
                        None => bad += 1,
                        Some(ls) => for (n, v) in ls { if n == "router" { labels.push(enc(&u32s(&v))) } },
                    }
                }
                labels.sort();
                labels.dedup();
                out.push(format!("M:{};bad={}", labels.join(","), bad));
            }
            "W" => {
                if raw { continue }
                let v = string_of(&field(op[1]).text);
                let text = prometheus_router_line("u", &v);
                // everything after the # HELP / # TYPE header lines
                let mut rest = text.as_str();
                while rest.starts_with('#') { rest = rest.split_once('\n').map(|x| x.1).unwrap_or("") }
                out.push(format!("W:{}", enc(&u32s(rest))));
            }
            _ => panic!("bad op {:?}", op),
        }
    }
    out.join(" ")
}

/// how a client treats the body: `html`, `plain`, `none` (no Content-Type: sniffed), `other`
fn ctype_class(ct: &Option<Vec<u8>>) -> &'static str {
    match ct {
        None => "none",
        Some(v) => {
            let v = String::from_utf8_lossy(v).to_ascii_lowercase();
            let mt = v.split(';').next().unwrap_or("").trim().to_string();
            if mt == "text/html" { "html" } else if mt == "text/plain" { "plain" } else { "other" }
        }
    }
}

fn hex(b: &[u8]) -> String { if b.is_empty() { "-".into() } else { b.iter().map(|x| format!("{:02x}", x)).collect() } }

pub fn run_case(line: &str) -> String { run_ops(line, false) }

pub fn special(_name: &str, _args: &[String]) -> bool { false }
