//! e2e: a REAL rotonda pipeline in-process - config -> Manager::spawn -> one
//! `bmp-tcp-in` unit on a loopback port, one `rib` unit sourcing it, a null
//! target, the HTTP server - driven from outside only: BMP bytes over TCP,
//! observations over HTTP (GET /metrics, GET <rib path><prefix>, GET /routers/).
//! Same case grammar and observation tokens as `pipe` (BMP ops only; O A Z are
//! skipped), so that the glue `pipe` emulates is exercised for real: the accept
//! loop (unit ingress id, find-or-register of the router id), RouterHandler::
//! read_from_router and its post-loop cleanup, the removal of the router from
//! router_states / router_info, the gate / DirectLink path into the RIB unit,
//! the HTTP API.
//!   C k | I k | T k | S k i | U k i e | D k i | R k i af a ps wf ws | E k i f |
//!   B k i | X k | Q af p | M k |
//!   H [v] | L [v]  reload the configuration (what SIGHUP does), L with another listen port; v selects a
//!                  variant of the settings (router_id_template of the bmp unit: 0 `{sys_name}`, 1 `a{sys_name}`, 2 `b{sys_name}`)
//!   V k            which variant's router-id template labels router k's series in GET /metrics: t:<v>
//!   G k            how many different ingress ids router k has been given so far: g:<n>
//!   F s            (first op only) the start-up configuration names a Roto script of variant s
//!   FH             the next load of the configuration - the start-up if FH stands among the leading F / K ops, else the next
//!                  H / L - happens while a thread of the harness HOLDS the mutex around the compiled script (the Arc<Mutex<..>>
//!                  every component is handed; guarded hook Manager::verif_roto_compiled) and lets go HOLD_MS later: the units
//!                  started by that load fetch their filter function from that mutex when they start. Nothing in the model.
//!   W s [1]        the operator edits the script: variant s from now on (0: `roto_script` is taken out of the configuration);
//!                  with 1 under a new file name, which the configuration then names. Takes effect with the next H / L.
//!   Y y            the operator edits the configuration: second unit `rib2` absent (0) / a rib sourcing the bmp unit,
//!                  answering at /rib2/ (1) / a unit of another type (bgp-tcp-in) of that name (2). Takes effect with the next H / L.
//!   P af p         as Q, asked of `rib2`: p:<entries> (p:- when nothing answers at /rib2/)
//!   K n            the operator edits the configuration: `[units.rib]` is a shorthand RIB with n generated vRIBs
//!                  (`filter_names` with n+1 entries, which ConfigFile::new expands into the physical RIB `rib` and the units
//!                  `rib-vRIB-0` .. `rib-vRIB-<n-1>`, each with `vrib_upstream = "rib"`, chained by their `sources`, the null target
//!                  re-sourced to the last one); 0: a plain RIB. Takes effect with the next H / L; among the leading F / K ops of a
//!                  case it describes the start-up configuration.
//!   N i af p       as Q, asked of generated vRIB i: GET /prefixes/<i>/<prefix>: v:<entries>; v:- when no vRIB answers there
//!                  (the physical RIB then takes the request and says 400); v:STALL when the request is not answered within
//!                  VRIB_STALL_MS - the case ends there, every later op prints `x`.
//!   J j            the operator edits the configuration: `[units.bmp-in]` is taken out (0) / is there (1). A case with J ops has a
//!                  SECOND ingress unit from the start: `[units.bmp-in2]`, a bmp-tcp-in on its own port with `http_api_path =
//!                  "/routers2/"`; the RIB units source both (`sources = ["bmp-in", "bmp-in2"]`, or `["bmp-in2"]` while bmp-in is out).
//!                  Routers 0..3 connect to bmp-in, routers 4..7 to bmp-in2. Takes effect with the next H / L: the manager TERMINATES
//!                  the running bmp-in (the engine waits until every connection of that unit has been closed by the unit and until
//!                  GET /routers/ says 404) or STARTS a new one (on the port in force: L = another port). A router that connects to a
//!                  bmp-in unit started by a reload is a new source: it is named k<8*g + k> where g = how many bmp-in units were
//!                  started before that one. `C k` while the unit of router k does not run is skipped.
//!   JL u           GET the router list of ingress unit u (0: /routers/, 1: /routers2/): r:<routers listed>, r:- when nothing answers there
//!   C2 k           router k opens a SECOND connection while its first one is still open (a router that rebooted: the collector's old
//!                  connection is half-open). The first one stays open and silent from then on; what the ops address is the new one.
//!                  As `C k` when k is not connected; skipped while an old connection of k is still parked.
//!   X2 k           the OLD (parked) connection of router k is closed at last
//!   RL             GET /routers/: r:<routers listed>
//!   BO k           (BGP cases: a case with one of the B? ops has a `bgp-tcp-in` unit `bgp-in` that the RIB units source too.) A BGP speaker
//!                  with source address 127.0.0.<30+k> (k = 0..4; AS 65100+k) connects to the unit, sends OPEN, and - when the unit answers
//!                  with its OPEN - KEEPALIVE, and waits for the unit's KEEPALIVE: o:<my_asn variant>,<hold time> as read from the unit's
//!                  OPEN; o:- when the unit closes the connection without an OPEN (no `[peers."127.0.0.<30+k>"]` entry). Skipped (-) while
//!                  a connection of that address is open. Start-up configuration: my_asn variant 0, peers 0 and 1 with entry variant 1.
//!   BA k a ps ws   the speaker of address k sends one UPDATE: IPv4 unicast prefixes ps announced with attribute set a, ws withdrawn
//!   BZ k [1]       the speaker closes the connection (with 1: sends NOTIFICATION Cease first)
//!   BP k v         the operator edits the configuration: `[units.bgp-in.peers."127.0.0.<30+k>"]` taken out (0) / there with hold_time
//!                  90 (1) / 120 (2). BS a: `my_asn` = 64512 (0) / 64513 (1). Both take effect with the next H / L (`listen` never changes).
//!   BM             the bgp unit's counters: n:<connection_accepted>,<connection_lost>,<disconnect>
//!   H / L          in a BGP case print x:<addresses whose connection the unit closed during the reload>
//! Script variants (rib-in-pre is what the RIB units fetch when they are started): 1..8 `rib-in-pre` rejects the routes of
//! prefix 10.<s>.0.0/16 (prefix s of the R ops; the peers of these cases have no 4-octet-AS capability, so the AS-path
//! predicates see nothing in their routes); 9 a script without a rib-in-pre filter. 10 + r / 20 + r (r = 0..9): the ingress units' own
//! filters - `bmp-in` rejects every message whose per-peer header has AS 65002 / 65003 (`prov.peer_asn() == AS<n>`: pool peers 6 / 8),
//! `bgp-in` rejects every UPDATE of the speaker with AS 65101 / 65100 (address 1 / 0) - and the rib-in-pre of variant r (0, 9: none).
//! The ingress units fetch theirs when they are STARTED (start-up; a bmp-in that a reload puts back), as the RIB units do.
//! A case with F / W / Y ops keeps its files in <verif>/.cache/e2e/<pid>-<n>/ and loads the configuration from the file
//! (ConfigFile::load, as src/main.rs does at start-up and on SIGHUP); `roto_script` is relative to the configuration file.
//! Per op one token (`-` for the non-observing ones); M prints two:
//!   m:<as pipe>|-   n:<bmp_num_connected_routers>,<accepted>,<lost>
use crate::engines::pipe::{eor_bytes, first_hop_value, malformed_update, metrics_vec_label, pph, prefix_str, update_bytes, POOL};
use crate::util::ops;
use rotonda::bgp::encode as enc;
use rotonda::config::{Config, ConfigFile, Source};
use rotonda::manager::Manager;
use std::collections::BTreeMap;
use std::io::{Read, Write};
use std::net::{Ipv4Addr, SocketAddr, SocketAddrV4, TcpListener, TcpStream};
use std::path::PathBuf;
use std::sync::atomic::{AtomicU32, Ordering};
use std::time::{Duration, Instant};

const UNIT: &str = "bmp-in";
const UNIT2: &str = "bmp-in2";
const UNITS: [&str; 2] = [UNIT, UNIT2];
const LISTS: [&str; 2] = ["/routers/", "/routers2/"];
const STALL_MS: u64 = 3000;
/// how long an UPDATE that the bgp-in filter should reject is given to come out of the unit's gate after all
const REJECT_WAIT_MS: u64 = 60;
/// how long the harness's thread holds the compiled script's mutex around a load (op FH)
const HOLD_MS: u64 = 200;
/// ... the gaps between its holds (a unit that waits needs some tens of microseconds to wake up and take the mutex; the unit whose
/// turn comes next is there a few hundred microseconds later) and the length of the later holds
const HOLD_GAPS_US: [u64; 5] = [20, 60, 150, 400, 1200];
const HOLD_AGAIN_MS: u64 = 50;
/// a prefix query of a vRIB (trigger to the physical RIB, result back through the chain) normally takes a millisecond
const VRIB_STALL_MS: u64 = 1500;
const MAX_VRIBS: u32 = 3;
const TEMPLATES: [&str; 3] = ["{sys_name}", "a{sys_name}", "b{sys_name}"];

/// the router id (= label of the router's series) the unit derives from a template: format_source_id puts the ingress id for {sys_name}
fn label_of(v: usize, rid: u32) -> String { TEMPLATES[v].replace("{sys_name}", &rid.to_string()) }

fn debug() -> bool { std::env::var("VH_DEBUG").is_ok() }

// ------------------------------------------------------------------ ports
/// Two listener ports outside the ephemeral range, derived from the pid so that
/// the shards of one check (and concurrent checks) do not collide; probed.
pub fn pick_ports(n: usize) -> Vec<u16> {
    let mut out = vec![];
    let mut p = 12000 + ((std::process::id() as u64 * 7) % 18000) as u16;
    let mut tries = 0;
    while out.len() < n && tries < 4000 {
        tries += 1;
        p = if p >= 31990 { 12000 } else { p + 1 };
        if out.contains(&p) { continue; }
        if TcpListener::bind(SocketAddrV4::new(Ipv4Addr::LOCALHOST, p)).is_ok() { out.push(p); }
    }
    assert!(out.len() == n, "no free loopback port");
    out
}

// ------------------------------------------------------------------ HTTP client (HTTP/1.1, one request per connection)
pub fn http_get(port: u16, path: &str) -> Option<(u16, String)> { http_get_within(port, path, STALL_MS) }

fn http_get_within(port: u16, path: &str, ms: u64) -> Option<(u16, String)> {
    let mut s = TcpStream::connect_timeout(&SocketAddr::from((Ipv4Addr::LOCALHOST, port)), Duration::from_millis(2000)).ok()?;
    s.set_read_timeout(Some(Duration::from_millis(ms))).ok()?;
    s.set_nodelay(true).ok()?;
    s.write_all(format!("GET {path} HTTP/1.1\r\nHost: localhost\r\nConnection: close\r\n\r\n").as_bytes()).ok()?;
    let mut buf = Vec::new();
    s.read_to_end(&mut buf).ok()?;
    let text = String::from_utf8_lossy(&buf).to_string();
    let (head, body) = text.split_once("\r\n\r\n")?;
    let status: u16 = head.split_whitespace().nth(1)?.parse().ok()?;
    let body = if head.to_ascii_lowercase().contains("transfer-encoding: chunked") { dechunk(body) } else { body.to_string() };
    Some((status, body))
}

fn dechunk(mut b: &str) -> String {
    let mut out = String::new();
    loop {
        let Some((len, rest)) = b.split_once("\r\n") else { break };
        let Ok(n) = usize::from_str_radix(len.trim(), 16) else { break };
        if n == 0 || rest.len() < n { break; }
        out.push_str(&rest[..n]);
        b = rest[n..].trim_start_matches("\r\n");
    }
    out
}

// ------------------------------------------------------------------ Prometheus text
/// value of `rotonda_<name>{...}` whose label set contains all of `labels`, summed over the matching series
pub fn metric_sum(text: &str, name: &str, labels: &[(&str, &str)]) -> Option<u64> {
    let full = format!("rotonda_{name}");
    let mut sum = None;
    for l in text.lines() {
        if !l.starts_with(&full) { continue; }
        let rest = &l[full.len()..];
        if !(rest.starts_with('{') || rest.starts_with(' ')) { continue; }
        if labels.iter().all(|(k, v)| l.contains(&format!("{k}=\"{v}\""))) {
            // (integers are kept exact: a wrapped gauge shows 2^64-1, which an f64 cannot tell from 2^64-2)
            let tok = l.rsplit(' ').next().unwrap_or("");
            if let Some(v) = tok.parse::<u64>().ok().or_else(|| tok.parse::<f64>().ok().map(|x| x as u64)) {
                sum = Some(sum.unwrap_or(0u64).wrapping_add(v));
            }
        }
    }
    sum
}

// ------------------------------------------------------------------ configuration files of a case
/// what the operator's files say now (they take effect with the next load)
#[derive(Clone, Copy, PartialEq)]
struct Desired {
    script: u32,   // 0: no roto_script in the configuration
    file_no: u32,  // the script's file name: filters.roto, filters-1.roto, ...
    rib2: u32,     // 0 absent, 1 rib, 2 bgp-tcp-in
    vribs: u32,    // `rib` is a shorthand RIB with that many generated vRIBs (0: a plain RIB)
    ingress: bool, // `[units.bmp-in]` is in the configuration
}

fn script_name(n: u32) -> String { if n == 0 { "filters.roto".into() } else { format!("filters-{n}.roto") } }

/// the AS whose messages the `bmp-in` / `bgp-in` filter of script variant s rejects (`prov.peer_asn() == AS<n>`): variants 10..19
/// reject the BMP peers of AS 65002 and the BGP speaker of address 1 (AS 65101), variants 20..29 AS 65003 and speaker 0 (AS 65100)
fn ingress_rejects(s: u32) -> Option<(u32, u32)> {
    match s / 10 { 1 => Some((65002, 65101)), 2 => Some((65003, 65100)), _ => None }
}

fn script_text(s: u32) -> String {
    if let Some((bmp_as, bgp_as)) = ingress_rejects(s) {
        // variants 10..29: the ingress units' own filters, and the rib-in-pre of variant s mod 10 (0 / 9: none)
        let mut t = format!("filter bmp-in(bmp_msg: BmpMsg, prov: Provenance) {{\n    if prov.peer_asn() == AS{bmp_as} {{\n        reject\n    }} else {{\n        accept\n    }}\n}}\n\n\
                             filter bgp-in(bgp_msg: BgpMsg, prov: Provenance) {{\n    if prov.peer_asn() == AS{bgp_as} {{\n        reject\n    }} else {{\n        accept\n    }}\n}}\n");
        if (1..=8).contains(&(s % 10)) { t += "\n"; t += &script_text(s % 10); }
        return t;
    }
    if s == 9 {
        return "filter bmp-in(bmp_msg: BmpMsg, prov: Provenance) {\n    accept\n}\n".into();
    }
    format!("filter rib-in-pre(route: Route) {{\n    if route.prefix_matches({}) {{\n        reject\n    }} else {{\n        accept\n    }}\n}}\n", prefix_str(0, s))
}

/// <verif>/.cache/target/release/vh  ->  <verif>/.cache/e2e/<pid>-<n>
fn case_dir() -> PathBuf {
    static N: AtomicU32 = AtomicU32::new(0);
    let exe = std::env::current_exe().expect("current_exe");
    let cache = exe.ancestors().nth(3).expect("vh lives in <verif>/.cache/target/<profile>/").to_path_buf();
    assert!(cache.ends_with(".cache"), "vh is expected to live in <verif>/.cache/target/<profile>/");
    cache.join("e2e").join(format!("{}-{}", std::process::id(), N.fetch_add(1, Ordering::SeqCst)))
}

pub struct Conn {
    pub stream: TcpStream,
    written: u64,
    pub rid: Option<u32>,
    counts: Vec<u64>,       // messages counted for this connection per template variant of the router id
    shown: Option<usize>,   // the variant under which the latest message was counted
    unit: usize,            // the ingress unit it is connected to (0: bmp-in, 1: bmp-in2)
}

pub struct World {
    rt: Option<tokio::runtime::Runtime>,
    mgr: Manager,
    bmp_port: u16,
    pub http_port: u16,
    spare_ports: Vec<u16>,
    pub conns: BTreeMap<u32, Conn>,
    parked: BTreeMap<u32, Conn>,     // the old connection of a router that has opened a second one (C2): open, silent
    ghosts: Vec<u32>,                // routers whose OLD connection ended after the new one was up (X2)
    accepted: [u64; 2],              // per ingress unit (counters of the unit that runs under that name now)
    lost: [u64; 2],
    binds: [u64; 2],
    two: bool,                       // the case has a second ingress unit (cases with J ops)
    bmp2_port: u16,
    running: [bool; 2],              // which ingress units run
    gen: u32,                        // bmp-in units started before the one that runs (or ran last)
    reloaded: bool,
    variant: usize,
    ids_of: BTreeMap<u32, Vec<u32>>,  // router key -> the different ingress ids it has been given
    rids: BTreeMap<u32, u32>,        // router ingress id -> router key k (every id ever seen for k)
    notes: Vec<(u32, usize)>,        // (k, pool index): a Peer Up of that wire identity was taken by the session
    pub stalled: Option<String>,
    dir: Option<PathBuf>,            // the case's files (cases with F / W / Y ops)
    desired: Desired,
    bgp_port: u16,
    wedged: bool,                    // a request was never answered: Manager::terminate is not tried at the end of the case
    hold_next: bool,                 // op FH: the next reload happens while the compiled script's mutex is held
    bgp: Option<BgpSide>,            // the case has a bgp-tcp-in unit `bgp-in` (cases with B? ops)
}

pub const BGP_UNIT: &str = "bgp-in";
const BGP_ASNS: [u32; 2] = [64512, 64513];
const BGP_HOLDS: [u16; 3] = [0, 90, 120];

/// what the configuration says about the bgp unit (`listen` never changes)
#[derive(Clone, Copy, PartialEq, Debug)]
struct BgpCfg { asn: usize, peers: [usize; 5] }   // per address 0..4: 0 no entry, v: entry with hold_time BGP_HOLDS[v]

struct BgpConn { stream: TcpStream, buf: Vec<u8>, notified: bool }

struct BgpSide {
    port: u16,
    desired: BgpCfg,                 // the file as the operator left it
    loaded: BgpCfg,                  // the file as it was at the latest load
    conns: BTreeMap<u32, BgpConn>,   // address -> the open connection of that address
    accepted: u64,                   // TCP connections made to the unit's listener
    updates: u64,                    // updates the unit's gate must have sent: one per UPDATE written, one per ended session
    seen: BTreeMap<u32, Vec<u32>>,   // address -> the ingress ids the RIB has shown for it, by first appearance
    in_reject: Option<u32>,          // the AS that the `bgp-in` filter of the start-up script rejects (the unit is never restarted)
}

fn bgp_frame(ty: u8, body: &[u8]) -> Vec<u8> {
    let mut v = vec![0xffu8; 16];
    v.extend_from_slice(&((19 + body.len()) as u16).to_be_bytes());
    v.push(ty);
    v.extend_from_slice(body);
    v
}

/// OPEN: version 4, AS_TRANS-free 2-octet AS, hold time 90, BGP id 10.0.0.<9+k>; capabilities MP IPv4 unicast + 4-octet AS
fn bgp_open(asn: u32, k: u32) -> Vec<u8> {
    let a2 = (asn as u16).to_be_bytes();
    let a4 = asn.to_be_bytes();
    bgp_frame(1, &[4, a2[0], a2[1], 0, 90, 10, 0, 0, 9 + k as u8, 14, 2, 12, 1, 4, 0, 1, 0, 1, 65, 4, a4[0], a4[1], a4[2], a4[3]])
}

impl BgpConn {
    /// takes one whole BGP message out of what was read so far
    fn take_frame(&mut self) -> Option<(u8, Vec<u8>)> {
        if self.buf.len() < 19 { return None; }
        let len = u16::from_be_bytes([self.buf[16], self.buf[17]]) as usize;
        if len < 19 || self.buf.len() < len { return None; }
        let fr: Vec<u8> = self.buf.drain(..len).collect();
        if fr[18] == 3 { self.notified = true; }
        Some((fr[18], fr[19..].to_vec()))
    }

    /// reads until a message of type `ty` has arrived: Some(body), or None when the other side closed first (or nothing came in time)
    fn await_frame(&mut self, ty: u8, ms: u64) -> Result<Vec<u8>, &'static str> {
        let t0 = Instant::now();
        let _ = self.stream.set_read_timeout(Some(Duration::from_millis(50)));
        loop {
            while let Some((t, body)) = self.take_frame() {
                if t == ty { return Ok(body); }
            }
            let mut chunk = [0u8; 4096];
            match self.stream.read(&mut chunk) {
                Ok(0) => return Err("closed"),
                Ok(n) => self.buf.extend_from_slice(&chunk[..n]),
                Err(e) if matches!(e.kind(), std::io::ErrorKind::WouldBlock | std::io::ErrorKind::TimedOut) => {}
                Err(_) => return Err("closed"),
            }
            if t0.elapsed() > Duration::from_millis(ms) { return Err("silent"); }
        }
    }

    /// takes in whatever has arrived; true when the other side has closed the connection
    fn closed(&mut self) -> bool {
        let _ = self.stream.set_nonblocking(true);
        let mut dead = false;
        loop {
            let mut chunk = [0u8; 4096];
            match self.stream.read(&mut chunk) {
                Ok(0) => { dead = true; break; }
                Ok(n) => self.buf.extend_from_slice(&chunk[..n]),
                Err(e) if e.kind() == std::io::ErrorKind::WouldBlock => break,
                Err(_) => { dead = true; break; }
            }
        }
        let _ = self.stream.set_nonblocking(false);
        while self.take_frame().is_some() {}
        dead
    }
}

fn config_text(bmp_port: u16, http_port: u16, variant: usize, d: &Desired, bgp_port: u16, bmp2_port: Option<u16>, bgp: Option<(u16, BgpCfg)>) -> String {
    let tpl = TEMPLATES[variant];
    // debugging aid: VH_E2E_LOG=<level> makes rotonda log at that level to stderr (World::start then also initialises its logger)
    let lvl = std::env::var("VH_E2E_LOG").unwrap_or_else(|_| "error".into());
    let script = if d.script == 0 { String::new() } else { format!("roto_script = \"{}\"\n", script_name(d.file_no)) };
    // what the RIB units source: the ingress units of the configuration
    let mut ingresses: Vec<&str> = vec![];
    if d.ingress { ingresses.push(UNIT); }
    if bmp2_port.is_some() { ingresses.push(UNIT2); }
    if bgp.is_some() { ingresses.push(BGP_UNIT); }
    let sources = ingresses.iter().map(|u| format!("\"{u}\"")).collect::<Vec<_>>().join(", ");
    let rib2 = match d.rib2 {
        1 => format!("\n[units.rib2]\ntype = \"rib\"\nsources = [{sources}]\nhttp_api_path = \"/rib2/\"\n\n[targets.null2]\ntype = \"null-out\"\nsources = [\"rib2\"]\n"),
        2 => format!("\n[units.rib2]\ntype = \"bgp-tcp-in\"\nlisten = \"127.0.0.1:{bgp_port}\"\nmy_asn = 64512\nmy_bgp_id = [1, 2, 3, 4]\n\n[targets.null2]\ntype = \"null-out\"\nsources = [\"rib2\"]\n"),
        _ => String::new(),
    };
    // the shorthand for a physical RIB with vRIBs behind it: one filter name per RIB (the names are not used since filters are
    // compiled Roto functions; what counts is how many there are)
    let shorthand = if d.vribs == 0 { String::new() } else {
        format!("filter_names = [{}]\n", (0..=d.vribs).map(|i| format!("\"f{i}\"")).collect::<Vec<_>>().join(", "))
    };
    let bmp1 = if d.ingress {
        format!("[units.{UNIT}]\ntype = \"bmp-tcp-in\"\nlisten = \"127.0.0.1:{bmp_port}\"\nrouter_id_template = \"{tpl}\"\n\n")
    } else { String::new() };
    let bmp2 = match bmp2_port {
        Some(p) => format!("[units.{UNIT2}]\ntype = \"bmp-tcp-in\"\nlisten = \"127.0.0.1:{p}\"\nhttp_api_path = \"{}\"\nrouter_id_template = \"{tpl}\"\n\n", LISTS[1]),
        None => String::new(),
    };
    let bgp_in = match bgp {
        Some((port, c)) => {
            let mut t = format!("[units.{BGP_UNIT}]\ntype = \"bgp-tcp-in\"\nlisten = \"127.0.0.1:{port}\"\nmy_asn = {}\nmy_bgp_id = [1, 2, 3, 4]\n\n", BGP_ASNS[c.asn]);
            for (k, v) in c.peers.iter().enumerate() {
                if *v != 0 {
                    t += &format!("[units.{BGP_UNIT}.peers.\"127.0.0.{}\"]\nname = \"p{k}\"\nremote_asn = []\nhold_time = {}\n\n", 30 + k, BGP_HOLDS[*v]);
                }
            }
            t
        }
        None => String::new(),
    };
    format!(
        "http_listen = [\"127.0.0.1:{http_port}\"]\nlog_level = \"{lvl}\"\nlog_target = \"stderr\"\n{script}\n\
         {bmp1}{bmp2}{bgp_in}\
         [units.rib]\ntype = \"rib\"\nsources = [{sources}]\n{shorthand}\n\
         [targets.null]\ntype = \"null-out\"\nsources = [\"rib\"]\n{rib2}"
    )
}

/// The configuration as a ConfigFile: from memory (no path: a `roto_script` would not be looked for), or, for a case with
/// files, written to <dir>/rotonda.conf and loaded from there as src/main.rs does.
fn config_file(dir: &Option<PathBuf>, text: String) -> ConfigFile {
    match dir {
        None => ConfigFile::new(text.into_bytes(), Source::default()).expect("config file"),
        Some(d) => {
            let p = d.join("rotonda.conf");
            std::fs::write(&p, text).expect("write rotonda.conf");
            ConfigFile::load(&p).expect("config file")
        }
    }
}

/// Something else that holds the mutex around the compiled script: takes it now (returns once it has it), lets go
/// `ms` later, then holds it again for HOLD_AGAIN_MS after each of the gaps HOLD_GAPS_US. The type behind the mutex is rotonda's business (roto::Compiled).
fn hold_script<T: Send + 'static>(c: Option<std::sync::Arc<std::sync::Mutex<T>>>, ms: u64) -> Option<std::thread::JoinHandle<()>> {
    let c = c?;
    let (tx, rx) = std::sync::mpsc::channel();
    let h = std::thread::spawn(move || {
        let g = c.lock();
        let _ = tx.send(());
        std::thread::sleep(Duration::from_millis(ms));
        drop(g);
        // ... and takes it again, several times: the ingress units fetch their filter when their `run` starts, which is after the
        // waitpoint that every unit of the load must have reached - the RIB units reach it only once they HAVE theirs (they fetch
        // in RibUnitRunner::new), that is, once the first hold is over. The gaps let the waiting units through in turn.
        for gap_us in HOLD_GAPS_US {
            std::thread::sleep(Duration::from_micros(gap_us));
            let g = c.lock();
            std::thread::sleep(Duration::from_millis(HOLD_AGAIN_MS));
            drop(g);
        }
    });
    let _ = rx.recv();
    Some(h)
}

impl World {
    /// What src/main.rs does: load the config through the manager, start the HTTP server, spawn the units.
    pub fn start(files: bool, script: u32) -> World { World::start_with(files, script, 0, false, false, false) }

    fn start_with(files: bool, script: u32, vribs: u32, two: bool, hold: bool, bgp: bool) -> World {
        let ports = pick_ports(7);
        let bgp_cfg = BgpCfg { asn: 0, peers: [1, 1, 0, 0, 0] };
        if std::env::var("VH_E2E_LOG").is_ok() { let _ = Config::init(); }
        let desired = Desired { script, file_no: 0, rib2: 0, vribs, ingress: true };
        let dir = if files {
            let d = case_dir();
            std::fs::create_dir_all(&d).expect("case directory");
            if script != 0 { std::fs::write(d.join(script_name(0)), script_text(script)).expect("write script"); }
            Some(d)
        } else { None };
        let rt = tokio::runtime::Builder::new_multi_thread().worker_threads(2).enable_all().build().unwrap();
        let mgr = {
            let _g = rt.enter();
            let mut mgr = Manager::new();
            let file = config_file(&dir, config_text(ports[0], ports[1], 0, &desired, ports[4], if two { Some(ports[5]) } else { None }, if bgp { Some((ports[6], bgp_cfg)) } else { None }));
            let (_src, mut config) = match Config::from_config_file(file, &mut mgr) { Ok(x) => x, Err(_) => panic!("config rejected") };
            if config.http.run(mgr.metrics(), mgr.http_resources()).is_err() { panic!("http server did not start"); }
            let holder = if hold { hold_script(mgr.verif_roto_compiled(), HOLD_MS) } else { None };
            mgr.spawn(&mut config);
            if let Some(h) = holder { let _ = h.join(); }
            mgr
        };
        let mut w = World {
            rt: Some(rt), mgr, bmp_port: ports[0], http_port: ports[1], spare_ports: ports[2..4].to_vec(),
            conns: BTreeMap::new(), parked: BTreeMap::new(), ghosts: vec![], accepted: [0; 2], lost: [0; 2], binds: [1; 2], two, bmp2_port: ports[5], running: [true, two], gen: 0, reloaded: false, variant: 0, ids_of: BTreeMap::new(), rids: BTreeMap::new(), notes: vec![], stalled: None,
            dir, desired, bgp_port: ports[4], wedged: false, hold_next: false,
            bgp: if bgp { Some(BgpSide { port: ports[6], desired: bgp_cfg, loaded: bgp_cfg, conns: BTreeMap::new(), accepted: 0, updates: 0, seen: BTreeMap::new(), in_reject: ingress_rejects(script).map(|x| x.1) }) } else { None },
        };
        // the pipeline is up when the bmp-tcp-in unit has bound its listener (units start together, after their waitpoint)
        w.wait_metrics("listener bound", |t| metric_sum(t, "bmp_tcp_in_listener_bound_count_total", &[("component", UNIT)]) == Some(1));
        if two { w.wait_metrics("second listener bound", |t| metric_sum(t, "bmp_tcp_in_listener_bound_count_total", &[("component", UNIT2)]) == Some(1)); }
        if bgp { w.wait_metrics("bgp listener bound", |t| metric_sum(t, "bgp_tcp_in_listener_bound_count_total", &[("component", BGP_UNIT)]) == Some(1)); }
        w
    }

    pub fn stop(mut self) {
        self.conns.clear();
        self.parked.clear();
        if let Some(b) = self.bgp.as_mut() { b.conns.clear(); }
        // Manager::terminate waits, spinning, until every unit has closed its command channel. A case that stalled may have
        // left a unit that no longer takes commands (that is what the stall reports): then the runtime is dropped with its tasks.
        if self.stalled.is_none() && !self.wedged { let _g = self.rt.as_ref().unwrap().enter(); self.mgr.terminate(); }
        if let Some(rt) = self.rt.take() { rt.shutdown_timeout(Duration::from_millis(500)); }
        if let Some(d) = self.dir.take() { if !debug() { let _ = std::fs::remove_dir_all(d); } }
    }

    /// the operator edits the script (and, for a new file name or a removed script, the configuration)
    fn edit_script(&mut self, s: u32, new_name: bool) {
        let Some(d) = self.dir.clone() else { return };
        if new_name { self.desired.file_no += 1; }
        self.desired.script = s;
        if s != 0 { std::fs::write(d.join(script_name(self.desired.file_no)), script_text(s)).expect("write script"); }
    }

    pub fn get(&self, path: &str) -> Option<(u16, String)> { http_get(self.http_port, path) }
    fn metrics(&self) -> String { self.get("/metrics").map(|x| x.1).unwrap_or_default() }

    /// polls `f` over fresh GET /metrics texts until it holds; marks the case stalled otherwise
    fn wait_metrics(&mut self, what: &str, f: impl Fn(&str) -> bool) -> String {
        let t0 = Instant::now();
        let mut n = 0u32;
        loop {
            let text = self.metrics();
            if f(&text) { return text; }
            if t0.elapsed() > Duration::from_millis(if self.stalled.is_some() { 50 } else { STALL_MS }) {
                if debug() { eprintln!("STALL {what}\n{text}"); }
                if self.stalled.is_none() { self.stalled = Some(what.to_string()); }
                return text;
            }
            n += 1;
            if n > 3 { std::thread::sleep(Duration::from_micros(if n < 20 { 200 } else { 2000 })); }
        }
    }

    /// GET /routers/ renders one row per connected router and takes every router's
    /// state-machine lock to do so: it returns only after the messages already
    /// counted as received have been fully processed (process_msg holds that lock
    /// until the update has gone through the gate into the RIB unit).
    fn routers_listed(&self, u: usize) -> Option<u64> {
        let (st, body) = self.get(LISTS[u])?;
        if st != 200 { return None; }
        let i = body.find("Showing ")? + 8;
        body[i..].split_whitespace().next()?.parse().ok()
    }

    /// the ingress ids GET /routers/ lists (first cell of every row links to /routers/<id>)
    fn listed_ids(&self, u: usize) -> Vec<u32> {
        let Some((_, body)) = self.get(LISTS[u]) else { return vec![] };
        let mut ids = vec![];
        for row in body.split("<tr>").skip(2) {
            let pat = format!("<td><a href=\"{}", LISTS[u]);
            if let Some(i) = row.find(&pat) {
                let rest = &row[i + pat.len()..];
                if let Some(id) = rest.split('"').next().and_then(|x| x.parse::<u32>().ok()) { ids.push(id); }
            }
        }
        ids
    }

    /// the unit says it lost more connections than this side closed: find the sockets the other side closed
    fn reap(&mut self, text: &str) -> bool {
        let mut any = false;
        for u in 0..2 { if self.running[u] { any |= self.reap_unit(text, u); } }
        any
    }

    fn reap_unit(&mut self, text: &str, u: usize) -> bool {
        let lost = metric_sum(text, "bmp_tcp_in_connection_lost_count_total", &[("component", UNITS[u])]).unwrap_or(0);
        if lost <= self.lost[u] { return false; }
        let mut dead = vec![];
        for (k, c) in self.conns.iter_mut().filter(|(_, c)| c.unit == u) {
            let mut b = [0u8; 1];
            let _ = c.stream.set_nonblocking(true);
            let r = c.stream.peek(&mut b);
            let _ = c.stream.set_nonblocking(false);
            match r {
                Ok(0) => dead.push(*k),
                Err(e) if e.kind() != std::io::ErrorKind::WouldBlock => dead.push(*k),
                _ => {}
            }
        }
        for k in dead.iter() { self.conns.remove(k); self.lost[u] += 1; }
        !dead.is_empty()
    }

    fn barrier(&mut self) {
        for u in 0..2 {
            if !self.running[u] { continue; }
            let want = self.conns.values().filter(|c| c.unit == u).count() as u64;
            // (two connections of one address: how many rows they make is what the case observes - op RL, `G` - the barrier only needs
            // the list to be rendered, which takes the locks of the sessions it shows)
            let more = self.parked.values().filter(|c| c.unit == u).count() as u64;
            let less = if u == 0 { self.ghosts.len() as u64 } else { 0 };
            let t0 = Instant::now();
            loop {
                if matches!(self.routers_listed(u), Some(n) if n + less >= want && n <= want + more) { break; }
                if t0.elapsed() > Duration::from_millis(if self.stalled.is_some() { 50 } else { STALL_MS }) {
                    if self.stalled.is_none() { self.stalled = Some(format!("router list does not show {want} routers")); }
                    return;
                }
                std::thread::sleep(Duration::from_micros(300));
            }
        }
    }

    /// the ingress unit router k connects to, and the name of the source it then is: in a case with two ingress units routers
    /// 0..3 belong to bmp-in and 4..7 to bmp-in2; a router of a bmp-in unit that a reload started is a new source
    fn unit_of(&self, k: u32) -> usize { if self.two && k % 8 >= 4 { 1 } else { 0 } }
    fn name_key(&self, k: u32) -> u32 { if self.unit_of(k) == 0 { k + 8 * self.gen } else { k } }

    pub fn connect(&mut self, k: u32) {
        let u = self.unit_of(k);
        if !self.running[u] { return; }
        let local = SocketAddr::from((Ipv4Addr::new(127, 0, 0, 10 + k as u8), 0));
        let remote = SocketAddr::from((Ipv4Addr::LOCALHOST, if u == 0 { self.bmp_port } else { self.bmp2_port }));
        let rt = self.rt.as_ref().unwrap();
        let t0 = Instant::now();
        let stream = loop {
            let r = rt.block_on(async {
                let s = tokio::net::TcpSocket::new_v4()?;
                s.bind(local)?;
                s.connect(remote).await
            });
            match r {
                Ok(s) => break s,
                Err(e) => {
                    if t0.elapsed() > Duration::from_millis(STALL_MS) { panic!("cannot connect to the bmp-tcp-in listener: {e}"); }
                    std::thread::sleep(Duration::from_millis(2));
                }
            }
        };
        let stream = stream.into_std().unwrap();
        stream.set_nonblocking(false).unwrap();
        stream.set_nodelay(true).unwrap();
        self.accepted[u] += 1;
        let want = self.accepted[u];
        self.wait_metrics("connection accepted", |t| metric_sum(t, "bmp_tcp_in_connection_accepted_count_total", &[("component", UNITS[u])]) == Some(want));
        // the router list names the id the accept loop gave this router: the one no other open connection has
        let others: Vec<u32> = self.conns.values().filter_map(|c| c.rid).collect();
        let fresh: Vec<u32> = self.listed_ids(u).into_iter().filter(|i| !others.contains(i)).collect();
        // (a second connection of this address: the list shows the id both share - or the old one's and a new one)
        let old_rid = self.parked.get(&k).and_then(|c| c.rid);
        let rid = if fresh.len() == 1 { Some(fresh[0]) } else if fresh.len() == 2 && old_rid.map(|o| fresh.contains(&o)).unwrap_or(false) { fresh.iter().copied().find(|i| Some(*i) != old_rid) } else { None };
        if let Some(r) = rid {
            self.rids.insert(r, self.name_key(k));
            let ids = self.ids_of.entry(k).or_default();
            if !ids.contains(&r) { ids.push(r); }
        }
        // the per-router counters belong to the router id: a second connection under the same id goes on counting where the first is
        let mut c = Conn { stream, written: 0, rid, counts: vec![0; TEMPLATES.len()], shown: None, unit: u };
        if self.parked.contains_key(&k) { self.rebase(&mut c); }
        self.conns.insert(k, c);
        if self.reloaded {
            // nothing says that a silent connection is being served; after a reload give the unit a moment to drop it
            let t0 = Instant::now();
            while t0.elapsed() < Duration::from_millis(40) {
                let text = self.metrics();
                if self.reap(&text) { break; }
                std::thread::sleep(Duration::from_millis(3));
            }
        }
        self.barrier();
    }

    /// messages the unit has counted for this connection, under whichever template its router id was derived from
    fn received(text: &str, rid: Option<u32>, u: usize) -> Vec<(usize, u64)> {
        let Some(r) = rid else { return vec![] };
        (0..TEMPLATES.len())
            .filter_map(|v| metric_sum(text, "bmp_tcp_in_num_bmp_messages_received_total", &[("component", UNITS[u]), ("router", &label_of(v, r))]).map(|n| (v, n)))
            .collect()
    }

    fn label(&self, k: u32) -> Option<String> {
        let c = self.conns.get(&k)?;
        let r = c.rid?;
        Some(label_of(c.shown.unwrap_or(self.variant), r))
    }

    /// router k's up-peers gauge under each template variant of its router id
    fn up_peers(&self, text: &str, k: u32) -> Vec<u64> {
        let rid = self.conns.get(&k).and_then(|c| c.rid);
        (0..TEMPLATES.len())
            .map(|v| match rid { Some(r) => metric_sum(text, "bmp_state_num_up_peers_total", &[("router", &label_of(v, r))]).unwrap_or(0), None => 0 })
            .collect()
    }

    /// writes one BMP message on router k's connection and waits until it has been processed
    pub fn send(&mut self, k: u32, bytes: &[u8]) -> String {
        let c = self.conns.get_mut(&k).unwrap();
        // (a write on a connection the unit has closed may fail: then the lost counter tells)
        let _ = c.stream.write_all(bytes);
        c.written += 1;
        let (want, rid, u) = (c.written, c.rid, c.unit);
        let lost = self.lost[u];
        let text = self.wait_metrics("message received", |t| {
            World::received(t, rid, u).iter().map(|x| x.1).sum::<u64>() == want
                || metric_sum(t, "bmp_tcp_in_connection_lost_count_total", &[("component", UNITS[u])]).unwrap_or(0) > lost
        });
        let seen = World::received(&text, rid, u);
        if let Some(c) = self.conns.get_mut(&k) {
            for (v, n) in seen {
                if n > c.counts[v] { c.shown = Some(v); }
                c.counts[v] = n;
            }
        }
        self.reap(&text);
        // a router the list does not show (see close_parked): no lock to wait on - a moment for the update to pass the gate
        if self.ghosts.contains(&k) { std::thread::sleep(Duration::from_millis(10)); }
        self.barrier();
        self.metrics()
    }

    fn rebase(&self, c: &mut Conn) {
        let text = self.metrics();
        c.written = 0;
        for (v, n) in World::received(&text, c.rid, c.unit) { c.counts[v] = n; c.written += n; }
    }

    /// C2 k: a second connection of router k while the first one is open
    fn connect_second(&mut self, k: u32) {
        if !self.conns.contains_key(&k) { return self.connect(k); }
        if self.parked.contains_key(&k) { return; }
        let old = self.conns.remove(&k).unwrap();
        self.parked.insert(k, old);
        self.connect(k);
    }

    /// X2 k: the old connection of router k ends
    fn close_parked(&mut self, k: u32) {
        let Some(c) = self.parked.remove(&k) else { return };
        let u = c.unit;
        let sent = |t: &str| metric_sum(t, "num_updates_total", &[("component", UNITS[u])]).unwrap_or(0);
        let sent_before = sent(&self.metrics());
        let _ = c.stream.shutdown(std::net::Shutdown::Both);
        drop(c);
        self.lost[u] += 1;
        let want = self.lost[u];
        self.wait_metrics("old connection lost", |t| metric_sum(t, "bmp_tcp_in_connection_lost_count_total", &[("component", UNITS[u])]) == Some(want));
        let t0 = Instant::now();
        while sent(&self.metrics()) < sent_before + 2 && t0.elapsed() < Duration::from_millis(50) { std::thread::sleep(Duration::from_micros(200)); }
        // give the task of the old connection the moment it needs for its last two lines (router_states / router_info)
        std::thread::sleep(Duration::from_millis(5));
        if let Some(mut c) = self.conns.remove(&k) {
            if !self.ghosts.contains(&k) { self.ghosts.push(k); }
            // (its clean-up dropped the counters of the router id)
            self.rebase(&mut c);
            self.conns.insert(k, c);
        }
        self.barrier();
    }

    pub fn disconnect(&mut self, k: u32) {
        self.ghosts.retain(|x| *x != k);
        let u = self.conns.get(&k).unwrap().unit;
        let sent = |t: &str| metric_sum(t, "num_updates_total", &[("component", UNITS[u])]).unwrap_or(0);
        let sent_before = sent(&self.metrics());
        let c = self.conns.remove(&k).unwrap();
        let _ = c.stream.shutdown(std::net::Shutdown::Both);
        drop(c);
        self.lost[u] += 1;
        let want = self.lost[u];
        self.wait_metrics("connection lost", |t| metric_sum(t, "bmp_tcp_in_connection_lost_count_total", &[("component", UNITS[u])]) == Some(want));
        // Let the cleanup get through the gate (it sends a WithdrawBulk and an EndOfStream) before the router list is
        // asked for: a GET /routers/ that arrives while the cleanup still holds the session's lock waits for it and
        // then re-creates the state-machine metrics the cleanup has just dropped (observation O3 of design-notes/E2E.md;
        // `vh e2e-list-race`). Only a settling aid: after 50 ms the case goes on whatever the gate counter says.
        let t0 = Instant::now();
        while sent(&self.metrics()) < sent_before + 2 && t0.elapsed() < Duration::from_millis(50) {
            std::thread::sleep(Duration::from_micros(200));
        }
        self.barrier();
    }

    /// SIGHUP-style reload; `rebind`: with another listen address for bmp-in (a running unit re-binds its listener, a unit that
    /// this reload starts binds there)
    fn reload(&mut self, rebind: bool, variant: Option<usize>) {
        self.reloaded = true;
        if let Some(v) = variant { self.variant = v.min(TEMPLATES.len() - 1); }
        if rebind {
            let Some(p) = self.spare_ports.pop() else { return };
            let old = std::mem::replace(&mut self.bmp_port, p);
            self.spare_ports.insert(0, old);
        }
        let was_running = self.running[0];
        {
            let _g = self.rt.as_ref().unwrap().enter();
            let file = config_file(&self.dir, config_text(self.bmp_port, self.http_port, self.variant, &self.desired, self.bgp_port, if self.two { Some(self.bmp2_port) } else { None }, self.bgp.as_ref().map(|b| (b.port, b.desired))));
            let (_src, mut config) = match Config::from_config_file(file, &mut self.mgr) { Ok(x) => x, Err(_) => panic!("config rejected") };
            let holder = if std::mem::take(&mut self.hold_next) { hold_script(self.mgr.verif_roto_compiled(), HOLD_MS) } else { None };
            self.mgr.spawn(&mut config);
            if let Some(h) = holder { let _ = h.join(); }
        }
        self.running[0] = self.desired.ingress;
        if self.dir.is_some() {
            // every unit has taken the reload - the old ones their Reconfigure (the rib units are subscribed to the bmp
            // unit's new gate again), a unit started by this reload has connected its links and runs (guarded hook
            // Manager::verif_settle: each unit answers a ReportLinks sent after the reload)
            let r = self.rt.as_ref().unwrap().block_on(self.mgr.verif_settle(Duration::from_millis(if self.stalled.is_some() { 50 } else { STALL_MS })));
            if let Err(unit) = r { if self.stalled.is_none() { self.stalled = Some(format!("unit {unit} did not take the reload")); } }
        }
        if was_running && !self.running[0] {
            // bmp-in was taken out: the manager terminates it. Every connection of the unit ends - the router's side sees
            // its socket closed once the unit's task for that connection has finished (RouterHandler::run: the read loop's
            // 'gate terminated' exit and what follows it) - and the unit's router list goes away with the unit.
            let ks: Vec<u32> = self.conns.iter().filter(|(_, c)| c.unit == 0).map(|(k, _)| *k).collect();
            for k in ks {
                let c = self.conns.remove(&k).unwrap();
                let _ = c.stream.set_read_timeout(Some(Duration::from_millis(if self.stalled.is_some() { 50 } else { STALL_MS })));
                let mut b = [0u8; 16];
                let mut s = &c.stream;
                let closed = match s.read(&mut b) { Ok(0) => true, Ok(_) => false, Err(e) => !matches!(e.kind(), std::io::ErrorKind::WouldBlock | std::io::ErrorKind::TimedOut) };
                if !closed && self.stalled.is_none() { self.stalled = Some(format!("removed unit keeps the connection of router {k}")); }
            }
            let t0 = Instant::now();
            loop {
                if matches!(self.get(LISTS[0]), Some((404, _))) { break; }
                if t0.elapsed() > Duration::from_millis(if self.stalled.is_some() { 50 } else { STALL_MS }) {
                    if self.stalled.is_none() { self.stalled = Some("removed unit still answers at its router list".into()); }
                    break;
                }
                std::thread::sleep(Duration::from_micros(500));
            }
        } else if !was_running && self.running[0] {
            // a bmp-in unit was started: a new unit with new counters (and a new ingress id of its own)
            self.gen += 1;
            self.accepted[0] = 0;
            self.lost[0] = 0;
            self.binds[0] = 1;
            self.wait_metrics("listener of the added unit bound", |t| metric_sum(t, "bmp_tcp_in_listener_bound_count_total", &[("component", UNIT)]) == Some(1));
        } else if rebind && self.running[0] {
            // the unit counts every successful bind of its listener
            self.binds[0] += 1;
            let b = self.binds[0];
            self.wait_metrics("listener re-bound", |t| metric_sum(t, "bmp_tcp_in_listener_bound_count_total", &[("component", UNIT)]) == Some(b));
        } else if self.dir.is_none() {
            // nothing observable says that the units have taken an unchanged configuration: give the reconfigure tasks time
            std::thread::sleep(Duration::from_millis(20));
        }
        self.barrier();
    }

    // -------------------------------------------------------------- the BGP speakers of a case with a bgp-tcp-in unit
    fn stall_ms(&self) -> u64 { if self.stalled.is_some() { 50 } else { STALL_MS } }

    /// the bgp unit's gate has sent as many updates as the speakers' UPDATEs and ended sessions call for (the counter moves after
    /// the update has been delivered, by DirectLink, into the RIB units)
    fn bgp_settle(&mut self) {
        let want = self.bgp.as_ref().unwrap().updates;
        self.wait_metrics("bgp unit's update reached the gate", |t| metric_sum(t, "num_updates_total", &[("component", BGP_UNIT)]).unwrap_or(0) >= want);
    }

    /// BO k: TCP connection from 127.0.0.<30+k>, OPEN, (OPEN back, KEEPALIVE, KEEPALIVE back)
    fn bgp_open(&mut self, k: u32) -> String {
        let port = self.bgp.as_ref().unwrap().port;
        let local = SocketAddr::from((Ipv4Addr::new(127, 0, 0, 30 + k as u8), 0));
        let remote = SocketAddr::from((Ipv4Addr::LOCALHOST, port));
        let rt = self.rt.as_ref().unwrap();
        let t0 = Instant::now();
        let stream = loop {
            let r = rt.block_on(async {
                let s = tokio::net::TcpSocket::new_v4()?;
                s.bind(local)?;
                s.connect(remote).await
            });
            match r {
                Ok(s) => break s,
                Err(e) => {
                    if t0.elapsed() > Duration::from_millis(STALL_MS) { panic!("cannot connect to the bgp-tcp-in listener: {e}"); }
                    std::thread::sleep(Duration::from_millis(2));
                }
            }
        };
        let stream = stream.into_std().unwrap();
        stream.set_nonblocking(false).unwrap();
        stream.set_nodelay(true).unwrap();
        let ms = self.stall_ms();
        let mut c = BgpConn { stream, buf: vec![], notified: false };
        let _ = c.stream.write_all(&bgp_open(65100 + k, k));
        let b = self.bgp.as_mut().unwrap();
        b.accepted += 1;
        let want = b.accepted;
        let tok = match c.await_frame(1, ms) {
            Err("closed") => "o:-".to_string(),
            Err(_) => { if self.stalled.is_none() { self.stalled = Some(format!("bgp unit neither answers nor closes the connection of peer {k}")); } "o:?".into() }
            Ok(body) if body.len() < 9 => "o:short".into(),
            Ok(body) => {
                // My AS (or the 4-octet AS capability when it says AS_TRANS), hold time
                let mut asn = u16::from_be_bytes([body[1], body[2]]) as u32;
                let hold = u16::from_be_bytes([body[3], body[4]]);
                let params = &body[10..];
                let mut i = 0;
                while i + 2 <= params.len() {
                    let (pt, pl) = (params[i], params[i + 1] as usize);
                    let val = &params[i + 2..(i + 2 + pl).min(params.len())];
                    if pt == 2 {
                        let mut j = 0;
                        while j + 2 <= val.len() {
                            let (cc, cl) = (val[j], val[j + 1] as usize);
                            if cc == 65 && cl == 4 && j + 6 <= val.len() { asn = u32::from_be_bytes([val[j + 2], val[j + 3], val[j + 4], val[j + 5]]); }
                            j += 2 + cl;
                        }
                    }
                    i += 2 + pl;
                }
                let a = BGP_ASNS.iter().position(|x| *x == asn).map(|x| x.to_string()).unwrap_or_else(|| format!("?{asn}"));
                let _ = c.stream.write_all(&bgp_frame(4, &[]));
                match c.await_frame(4, ms) {
                    Ok(_) => { let t = format!("o:{a},{hold}"); self.bgp.as_mut().unwrap().conns.insert(k, c); t }
                    Err(_) => format!("o:{a},{hold},not-established"),
                }
            }
        };
        self.wait_metrics("bgp connection accepted", |t| metric_sum(t, "bgp_tcp_in_connection_accepted_count_total", &[("component", BGP_UNIT)]) == Some(want));
        tok
    }

    /// a BGP op on the connection of address k: `-` when this side has none; `!closed` when the unit has closed it meanwhile
    fn bgp_gone(&mut self, k: u32) -> Option<String> {
        let b = self.bgp.as_mut().unwrap();
        match b.conns.get_mut(&k) {
            None => Some("-".into()),
            Some(c) => if c.closed() { b.conns.remove(&k); b.updates += 1; Some("!closed".into()) } else { None },
        }
    }

    fn bgp_update(&mut self, k: u32, bytes: &[u8]) -> String {
        if let Some(t) = self.bgp_gone(k) { return t; }
        let b = self.bgp.as_mut().unwrap();
        let _ = b.conns.get_mut(&k).unwrap().stream.write_all(bytes);
        if b.in_reject == Some(65100 + k) {
            // the unit's filter is expected to reject this UPDATE: nothing reaches the gate, no counter says that the session has
            // read it. The expectation only says how long to wait: should an update come out after all, it is waited for and counted
            let want = b.updates + 1;
            let t0 = Instant::now();
            while t0.elapsed() < Duration::from_millis(REJECT_WAIT_MS) {
                let text = self.metrics();
                if metric_sum(&text, "num_updates_total", &[("component", BGP_UNIT)]).unwrap_or(0) >= want {
                    self.bgp.as_mut().unwrap().updates = want;
                    break;
                }
                std::thread::sleep(Duration::from_millis(2));
            }
            return "-".into();
        }
        b.updates += 1;
        self.bgp_settle();
        "-".into()
    }

    fn bgp_close(&mut self, k: u32, notify: bool) -> String {
        if let Some(t) = self.bgp_gone(k) { return t; }
        let b = self.bgp.as_mut().unwrap();
        let c = b.conns.remove(&k).unwrap();
        if notify { let mut s = &c.stream; let _ = s.write_all(&bgp_frame(3, &[6, 2])); }
        let _ = c.stream.shutdown(std::net::Shutdown::Both);
        drop(c);
        b.updates += 1;
        self.bgp_settle();
        "-".into()
    }

    /// after a reload: which connections has the unit closed? Waits for the ones whose entry (or my_asn) the reload changed - the
    /// expectation only says how long to wait, the token says what was seen - then a little longer for any other
    fn bgp_after_reload(&mut self) -> String {
        let ms = self.stall_ms();
        let b = self.bgp.as_mut().unwrap();
        let (old, new) = (b.loaded, b.desired);
        b.loaded = new;
        let expect: Vec<u32> = b.conns.keys().copied().filter(|k| old.asn != new.asn || old.peers[*k as usize] != new.peers[*k as usize]).collect();
        let mut closed: Vec<u32> = vec![];
        let t0 = Instant::now();
        let mut grace: Option<Instant> = None;
        loop {
            let ks: Vec<u32> = b.conns.keys().copied().collect();
            for k in ks { if b.conns.get_mut(&k).unwrap().closed() { b.conns.remove(&k); closed.push(k); } }
            if grace.is_none() && (expect.iter().all(|k| closed.contains(k)) || t0.elapsed() > Duration::from_millis(ms)) { grace = Some(Instant::now()); }
            if let Some(g) = grace { if g.elapsed() > Duration::from_millis(15) { break; } }
            std::thread::sleep(Duration::from_micros(500));
        }
        b.updates += closed.len() as u64;
        closed.sort();
        self.bgp_settle();
        format!("x:{}", closed.iter().map(|k| k.to_string()).collect::<Vec<_>>().join(","))
    }

    fn bgp_metrics(&mut self) -> String {
        let text = self.metrics();
        let g = |name: &str| metric_sum(&text, name, &[("component", BGP_UNIT)]).map(|v| v.to_string()).unwrap_or_else(|| "?".into());
        format!("n:{},{},{}", g("bgp_tcp_in_connection_accepted_count_total"), g("bgp_tcp_in_connection_lost_count_total"), g("bgp_tcp_in_disconnect_count_total"))
    }

    fn query(&mut self, af: u32, p: u32) -> String { self.query_at("/prefixes/", "q", af, p) }

    fn query_at(&mut self, base: &str, tag: &str, af: u32, p: u32) -> String {
        let path = format!("{base}{}", prefix_str(af, p));
        let t0 = Instant::now();
        let r = if tag == "v" { http_get_within(self.http_port, &path, VRIB_STALL_MS) } else { self.get(&path) };
        if r.is_none() && tag == "v" && t0.elapsed() >= Duration::from_millis(VRIB_STALL_MS) { return "v:STALL".into(); }
        let Some((st, body)) = r else { return format!("{tag}:http-error") };
        if st == 404 && tag == "p" { return "p:-".into(); }
        // no generated vRIB of that number: the request falls through to the physical RIB, which cannot read "<i>/<prefix>"
        if (st == 404 || st == 400) && tag == "v" { return "v:-".into(); }
        if st != 200 { return format!("{tag}:http-{st}"); }
        let Ok(v) = serde_json::from_str::<serde_json::Value>(&body) else { return format!("{tag}:bad-json") };
        let mut es: Vec<String> = vec![];
        let rows = v.get("data").and_then(|d| d.as_array()).cloned().unwrap_or_default();
        // entries of BGP sessions: the ingress info names the speaker's address; the sessions of one address are numbered in the
        // order in which the RIB has shown their ingress ids (new ones of one answer: in ascending order)
        if let Some(b) = self.bgp.as_mut() {
            let mut fresh: Vec<(u32, u32)> = rows.iter().filter_map(|r| {
                let id = r.get("ingress_id").and_then(|x| x.as_u64())? as u32;
                let k = bgp_addr_of(r.get("ingress_info"))?;
                Some((k, id))
            }).collect();
            fresh.sort();
            for (k, id) in fresh { let l = b.seen.entry(k).or_default(); if !l.contains(&id) { l.push(id); } }
        }
        for r in rows {
            let id = r.get("ingress_id").and_then(|x| x.as_u64()).unwrap_or(u64::MAX);
            let st = match r.get("status").and_then(|x| x.as_str()).map(|x| x.to_ascii_lowercase()).as_deref() { Some("withdrawn") => "W", Some("active") => "A", _ => "?" };
            let a = r.get("attributes").map(first_hop_value).unwrap_or(9999);
            let mut names = self.names_of(r.get("ingress_info"));
            if let (Some(b), Some(k)) = (self.bgp.as_ref(), bgp_addr_of(r.get("ingress_info"))) {
                if let Some(c) = b.seen.get(&k).and_then(|l| l.iter().position(|x| *x as u64 == id)) { names.push(format!("b{k}c{c}")); }
            }
            if names.is_empty() { es.push(format!("?{id}={st}{a}")); }
            for x in names { es.push(format!("{x}={st}{a}")); }
        }
        es.sort();
        format!("{tag}:{}", es.join(","))
    }

    /// wire identities an ingress id stands for, from what the API says about it:
    /// parent (= the router's id), peer address, peer AS, RIB view
    fn names_of(&self, info: Option<&serde_json::Value>) -> Vec<String> {
        let Some(info) = info else { return vec![] };
        let parent = info.get("parent_ingress").and_then(|x| x.as_u64());
        let Some(k) = parent.and_then(|p| self.rids.get(&(p as u32)).copied()) else { return vec![] };
        let addr = info.get("remote_addr").and_then(|x| x.as_str()).unwrap_or("");
        let asn = info.get("remote_asn").map(|x| x.to_string().chars().filter(|c| c.is_ascii_digit()).collect::<String>()).unwrap_or_default();
        let view = info.get("rib_type").map(|x| x.to_string()).unwrap_or_default();
        let mut out = vec![];
        for (nk, i) in self.notes.iter() {
            let (t, _l, o, _d, a, s, _b) = POOL[*i];
            let v = if t == 3 { "LocRib" } else if o == 1 { "AdjRibOut" } else { "AdjRibIn" };
            if *nk == k && addr == format!("192.0.2.{a}") && asn == s.to_string() && view.contains(v) {
                out.push(format!("k{nk}p{i}"));
            }
        }
        out
    }
}

/// the speaker address (127.0.0.<30+k> -> k) an ingress id of a BGP session stands for: no parent, remote address of a speaker
fn bgp_addr_of(info: Option<&serde_json::Value>) -> Option<u32> {
    let info = info?;
    if info.get("parent_ingress").map(|x| !x.is_null()).unwrap_or(false) { return None; }
    let addr = info.get("remote_addr").and_then(|x| x.as_str())?;
    let last: u32 = addr.strip_prefix("127.0.0.")?.parse().ok()?;
    if (30..35).contains(&last) { Some(last - 30) } else { None }
}

fn is_bgp_case(all: &[Vec<&str>]) -> bool { all.iter().any(|o| matches!(o[0], "BO" | "BA" | "BZ" | "BP" | "BS" | "BM")) }

/// (the case keeps files, start-up script, start-up number of vRIBs, how many leading ops describe the start-up configuration,
/// the case has a second ingress unit)
fn startup_of(all: &[Vec<&str>]) -> (bool, u32, u32, usize, bool, bool) {
    let two = all.iter().any(|o| matches!(o[0], "J" | "JL"));
    let files = two || is_bgp_case(all) || all.iter().any(|o| matches!(o[0], "C2" | "X2" | "RL")) || all.iter().any(|o| matches!(o[0], "F" | "FH" | "W" | "Y" | "K"));
    let (mut script, mut vribs, mut lead) = (0, 0, 0);
    let mut hold = false;
    for (i, o) in all.iter().enumerate() {
        match o[0] {
            "F" if i == 0 => script = o[1].parse::<u32>().unwrap(),
            "FH" => hold = true,
            "K" => vribs = o[1].parse::<u32>().unwrap().min(MAX_VRIBS),
            _ => break,
        }
        lead = i + 1;
    }
    (files, script, vribs, lead, two, hold)
}

pub fn run_case(line: &str) -> String {
    let all = ops(line);
    let (files, startup, vribs, lead, two, hold) = startup_of(&all);
    let dup = all.iter().any(|o| matches!(o[0], "C2" | "X2" | "RL"));
    let bgp = is_bgp_case(&all);
    let mut w = World::start_with(files, startup, vribs, two, hold, bgp);
    let mut out: Vec<String> = vec![];
    let mut ended = false;
    for (idx, op) in all.into_iter().enumerate() {
        let n = |i: usize| op[i].parse::<u32>().unwrap();
        if ended { out.push("x".into()); continue; }
        match op[0] {
            "C" => {
                let k = n(1);
                if !w.conns.contains_key(&k) { w.connect(k); }
                out.push("-".into());
            }
            "C2" => { w.connect_second(n(1)); out.push("-".into()); }
            "X2" => { w.close_parked(n(1)); out.push("-".into()); }
            "RL" => out.push(match w.routers_listed(0) { Some(c) => format!("r:{c}"), None => "r:?".into() }),
            "I" | "T" | "S" | "U" | "D" | "R" | "E" | "B" => {
                let k = n(1);
                out.push("-".into());
                if !w.conns.contains_key(&k) { continue; }
                let bytes = match op[0] {
                    "I" => enc::mk_initiation_msg("r", "d"),
                    "T" => enc::mk_termination_msg(),
                    "S" => enc::mk_statistics_report_msg(&pph(n(2) as usize)),
                    "U" => enc::mk_peer_up_notification_msg(&pph(n(2) as usize), "10.0.0.1".parse().unwrap(), 11019, 4567, 111, 222, 0, 0, vec![], n(3) == 1),
                    "D" => super::pipe::peer_down_msg(&pph(n(2) as usize), op.get(3).map(|r| r.parse().unwrap())),
                    "R" => enc::mk_raw_route_monitoring_msg(&pph(n(2) as usize), update_bytes(n(3), n(4), op[5], n(6), op[7])),
                    "E" => enc::mk_raw_route_monitoring_msg(&pph(n(2) as usize), eor_bytes(n(3))),
                    _ => enc::mk_raw_route_monitoring_msg(&pph(n(2) as usize), malformed_update()),
                };
                if op[0] == "U" {
                    let before = w.up_peers(&w.metrics(), k);
                    let text = w.send(k, &bytes);
                    let after = w.up_peers(&text, k);
                    // the router's up-peers gauge moved: the session took the Peer Up
                    let i = n(2) as usize;
                    // (moved, not grew: after a change of the template the gauge of the new label starts at 0 and a Peer Down wraps it)
                    let went_up = before.iter().zip(after.iter()).any(|(b, a)| a != b);
                    let nk = w.name_key(k);
                    if went_up && !w.notes.contains(&(nk, i)) { w.notes.push((nk, i)); }
                } else {
                    w.send(k, &bytes);
                }
            }
            "X" => {
                let k = n(1);
                if w.conns.contains_key(&k) { w.disconnect(k); }
                out.push("-".into());
            }
            "L" | "H" => {
                w.reload(op[0] == "L", op.get(1).and_then(|x| x.parse().ok()));
                out.push(if w.bgp.is_some() { w.bgp_after_reload() } else { "-".into() });
            }
            "BO" => {
                let k = n(1).min(4);
                out.push(if w.bgp.as_ref().unwrap().conns.contains_key(&k) { "-".into() } else { w.bgp_open(k) });
            }
            "BA" => out.push(w.bgp_update(n(1).min(4), &update_bytes(0, n(2), op[3], 0, op[4]))),
            "BZ" => out.push(w.bgp_close(n(1).min(4), op.get(2).map(|x| *x == "1").unwrap_or(false))),
            "BP" => { w.bgp.as_mut().unwrap().desired.peers[n(1).min(4) as usize] = n(2).min(2) as usize; out.push("-".into()); }
            "BS" => { w.bgp.as_mut().unwrap().desired.asn = n(1).min(1) as usize; out.push("-".into()); }
            "BM" => out.push(w.bgp_metrics()),
            "V" => {
                let k = n(1);
                out.push(match w.conns.get(&k) {
                    None => "-".into(),
                    Some(c) => match c.shown { Some(v) => format!("t:{v}"), None => "t:-".into() },
                });
            }
            "G" => {
                let k = n(1);
                out.push(match w.conns.get(&k) {
                    None => "-".into(),
                    Some(c) if c.rid.is_none() => "g:?".into(),
                    Some(_) => format!("g:{}", w.ids_of.get(&k).map(|v| v.len()).unwrap_or(0)),
                });
            }
            "O" | "A" | "Z" | "F" => out.push("-".into()),
            "FH" => {
                // among the leading ops it described the start-up; later it arms the next reload
                if idx >= lead { w.hold_next = true; }
                out.push("-".into());
            }
            "W" => {
                w.edit_script(n(1), op.get(2).map(|x| *x == "1").unwrap_or(false));
                out.push("-".into());
            }
            "Y" => {
                w.desired.rib2 = n(1).min(2);
                out.push("-".into());
            }
            "P" => out.push(w.query_at("/rib2/", "p", n(1), n(2))),
            "Q" => out.push(w.query(n(1), n(2))),
            "K" => {
                w.desired.vribs = n(1).min(MAX_VRIBS);
                out.push("-".into());
            }
            "J" => {
                w.desired.ingress = n(1) != 0;
                out.push("-".into());
            }
            "JL" => {
                let u = (n(1) as usize).min(1);
                out.push(match w.get(LISTS[u]) {
                    Some((200, _)) => match w.routers_listed(u) { Some(c) => format!("r:{c}"), None => "r:?".into() },
                    Some((404, _)) => "r:-".into(),
                    Some((st, _)) => format!("r:http-{st}"),
                    None => "r:http-error".into(),
                });
            }
            "N" => {
                let t = w.query_at(&format!("/prefixes/{}/", n(1)), "v", n(2), n(3));
                // an HTTP request that is never answered: whatever was to answer it is gone or cut off; the case ends here
                if t == "v:STALL" { ended = true; w.wedged = true; }
                out.push(t);
            }
            "M" if w.two || dup => { out.push("-".into()); out.push("-".into()); }
            "M" => {
                let k = n(1);
                let text = w.metrics();
                match (w.conns.contains_key(&k), w.label(k)) {
                    (false, _) => out.push("-".into()),
                    (true, None) => out.push("m:?".into()),
                    (true, Some(l)) => out.push(format!("m:{}", metrics_vec_label(&text, &l))),
                }
                let comp = UNITS[w.conns.get(&k).map(|c| c.unit).unwrap_or(0)];
                let g = |name: &str| metric_sum(&text, name, &[("component", comp)]).map(|v| v.to_string()).unwrap_or_else(|| "?".into());
                out.push(format!("n:{},{},{}", g("bmp_num_connected_routers_total"), g("bmp_tcp_in_connection_accepted_count_total"), g("bmp_tcp_in_connection_lost_count_total")));
            }
            _ => panic!("bad op {:?}", op),
        }
    }
    let stalled = w.stalled.clone();
    w.stop();
    match stalled {
        Some(what) => format!("STALL {} | {}", what.replace(' ', "_"), out.join(" ")),
        None => out.join(" "),
    }
}

pub fn special(name: &str, args: &[String]) -> bool {
    if name == "e2e-list-race" {
        // vh e2e-list-race <rounds>: a router with a few hundred routes goes away while GET /routers/ is being asked
        // for; afterwards nobody is connected - how often does bmp_num_connected_routers still say 1?
        let rounds: usize = args.first().and_then(|x| x.parse().ok()).unwrap_or(50);
        let mut stuck = 0;
        for _ in 0..rounds {
            let mut w = World::start(false, 0);
            w.connect(0);
            w.send(0, &enc::mk_initiation_msg("r", "d"));
            w.send(0, &enc::mk_peer_up_notification_msg(&pph(0), "10.0.0.1".parse().unwrap(), 11019, 4567, 111, 222, 0, 0, vec![], false));
            for chunk in 0..6u32 {
                let ps: Vec<String> = (1..=40u32).map(|p| (chunk * 40 + p).to_string()).collect();
                w.send(0, &enc::mk_raw_route_monitoring_msg(&pph(0), update_bytes(0, 1, &ps.join(","), 0, "-")));
            }
            let c = w.conns.remove(&0).unwrap();
            drop(c);
            w.lost[0] += 1;
            for _ in 0..20 { let _ = w.get("/routers/"); }
            let want = w.lost[0];
            w.wait_metrics("connection lost", |t| metric_sum(t, "bmp_tcp_in_connection_lost_count_total", &[("component", UNIT)]) == Some(want));
            std::thread::sleep(Duration::from_millis(20));
            let n = metric_sum(&w.metrics(), "bmp_num_connected_routers_total", &[("component", UNIT)]).unwrap_or(0);
            if n != 0 { stuck += 1; }
            w.stop();
        }
        println!("rounds {rounds}: bmp_num_connected_routers stayed above 0 with nobody connected in {stuck}");
        return true;
    }
    if name == "e2e-raw" {
        // debugging aid: vh e2e-raw '<case>' <path> : run the case, then print one HTTP resource raw
        let all = ops(&args[0]);
        let (files, startup, vribs, _lead, two, hold) = startup_of(&all);
        let bgp = is_bgp_case(&all);
        let mut w = World::start_with(files, startup, vribs, two, hold, bgp);
        for op in all {
            let n = |i: usize| op[i].parse::<u32>().unwrap();
            match op[0] {
                "W" => w.edit_script(n(1), op.get(2).map(|x| *x == "1").unwrap_or(false)),
                "Y" => w.desired.rib2 = n(1).min(2),
                "K" => w.desired.vribs = n(1).min(MAX_VRIBS),
                "J" => w.desired.ingress = n(1) != 0,
                "C" => w.connect(n(1)),
                "I" => { w.send(n(1), &enc::mk_initiation_msg("r", "d")); }
                "U" => { w.send(n(1), &enc::mk_peer_up_notification_msg(&pph(n(2) as usize), "10.0.0.1".parse().unwrap(), 11019, 4567, 111, 222, 0, 0, vec![], n(3) == 1)); }
                "R" => { w.send(n(1), &enc::mk_raw_route_monitoring_msg(&pph(n(2) as usize), update_bytes(n(3), n(4), op[5], n(6), op[7]))); }
                "X" => w.disconnect(n(1)),
                "L" | "H" => { w.reload(op[0] == "L", op.get(1).and_then(|x| x.parse().ok())); if w.bgp.is_some() { println!("{}", w.bgp_after_reload()); } }
                "BO" => println!("{}", w.bgp_open(n(1))),
                "BA" => println!("{}", w.bgp_update(n(1), &update_bytes(0, n(2), op[3], 0, op[4]))),
                "BZ" => println!("{}", w.bgp_close(n(1), op.get(2).map(|x| *x == "1").unwrap_or(false))),
                "BP" => w.bgp.as_mut().unwrap().desired.peers[n(1) as usize] = n(2) as usize,
                "BS" => w.bgp.as_mut().unwrap().desired.asn = n(1) as usize,
                "BM" => println!("{}", w.bgp_metrics()),
                _ => {}
            }
        }
        for p in &args[1..] {
            println!("== GET {p}");
            println!("{:?}", w.get(p));
        }
        w.stop();
        return true;
    }
    false
}
