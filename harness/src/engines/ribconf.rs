//! ribconf (C11 / C13): "what the TOML file says is what the rib unit enforces".
//! A REAL rotonda pipeline in-process, as src/main.rs runs it: the case's
//! configuration is rendered as TOML TEXT and goes through ConfigFile::new ->
//! Config::from_config_file (Manager::load: the real serde Deserialize of
//! `Unit` / `RibUnit` / `QueryLimits` / `MoreSpecifics`) -> the HTTP server ->
//! Manager::spawn; a later load is what SIGHUP does (same calls on the running
//! manager: the rib unit gets GateStatus::Reconfiguring in its own run loop).
//! The limits in force are then asked of the running unit from outside only:
//! GET <base><prefix>?include=.. over loopback HTTP. No hook reads the parsed
//! limits; the only hook used is Manager::verif_settle (waits until every unit
//! has taken the reload).
//! Pipeline: `[units.bmp-in]` (bmp-tcp-in on a loopback port, nobody connects),
//! `[units.rib]` (sources = ["bmp-in"]; THE TABLE UNDER TEST), `[targets.null]`.
//! Same case grammar as oracle/eng_ribconf.ml:
//!   C <style> <ql> <path>   load a configuration whose `[units.rib]` table has
//!        <ql>   `query_limits`: `-` no such key | `e` a table without `more_specifics` |
//!               `m/<v4>/<v6>[/x]` a `more_specifics` table with shortest_prefix_ipv4 / _ipv6 each
//!               `-` unset | <int> an integer | s<int> the string "<int>" | b `true` | f `8.5`; /x: one more, unknown key
//!        <path> `http_api_path`: `-` unset | the text
//!        <style> how it is written down, (style % 4): 0 `[units.rib.query_limits.more_specifics]` header |
//!               1 dotted keys in `[units.rib]` | 2 one inline table | 3 `[units.rib.query_limits]` header, then the
//!               more_specifics header; (style / 4) % 2 = 1: the IPv6 key in front of the IPv4 key
//!        The first accepted load of a case is the start of the process (a refused one: the process does not
//!        start, the next C is another start); every later one is a reload (refused: logged, nothing changes).
//!   Q <af> <len> <inc> <base>   GET <base><0.0.0.0|::>/<len>[?include=..]  (af 4|6; inc m | l | lm | -)
//! Observation: C -> ok | E;  Q -> down (nothing runs) | <status>, for 200 followed by `l` / `m` for the
//! sections `included.lessSpecifics` / `included.moreSpecifics` of the answer.
use crate::engines::e2e::{http_get, pick_ports};
use crate::util::ops;
use rotonda::config::{Config, ConfigFile, Source};
use rotonda::manager::Manager;
use std::time::Duration;

const SETTLE_MS: u64 = 3000;

fn debug() -> bool { std::env::var("VH_DEBUG").is_ok() }

fn value_text(tok: &str) -> Option<String> {
    if tok == "-" { return None; }
    Some(match tok.as_bytes()[0] {
        b's' => format!("\"{}\"", &tok[1..]),
        b'b' => "true".to_string(),
        b'f' => "8.5".to_string(),
        _ => tok.parse::<i64>().expect("integer value").to_string(),
    })
}

/// the keys of the `[units.rib]` table proper (before any sub-table header) and the sub-table headers after them
pub fn rib_table(style: u32, ql: &str, path: &str) -> (String, String) {
    let mut keys = String::new();
    let mut tables = String::new();
    if path != "-" { keys.push_str(&format!("http_api_path = \"{path}\"\n")); }
    let form = style % 4;
    let swap = (style / 4) % 2 == 1;
    if ql == "-" {
        // no query_limits key at all
    } else if ql == "e" {
        match form {
            0 | 3 => tables.push_str("[units.rib.query_limits]\n"),
            _ => keys.push_str("query_limits = {}\n"),
        }
    } else {
        let f: Vec<&str> = ql.split('/').collect();
        assert!(f[0] == "m" && f.len() >= 3, "bad query_limits token {ql}");
        let mut kv: Vec<(String, String)> = vec![];
        if let Some(v) = value_text(f[1]) { kv.push(("shortest_prefix_ipv4".into(), v)); }
        if let Some(v) = value_text(f[2]) { kv.push(("shortest_prefix_ipv6".into(), v)); }
        if swap { kv.reverse(); }
        if f.get(3) == Some(&"x") { kv.insert(kv.len() / 2, ("shortest_prefix".into(), "4".into())); }
        match form {
            0 | 3 => {
                if form == 3 { tables.push_str("[units.rib.query_limits]\n"); }
                tables.push_str("[units.rib.query_limits.more_specifics]\n");
                for (k, v) in &kv { tables.push_str(&format!("{k} = {v}\n")); }
            }
            1 if !kv.is_empty() => {
                for (k, v) in &kv { keys.push_str(&format!("query_limits.more_specifics.{k} = {v}\n")); }
            }
            1 => keys.push_str("query_limits.more_specifics = {}\n"),
            _ => {
                let inner = kv.iter().map(|(k, v)| format!("{k} = {v}")).collect::<Vec<_>>().join(", ");
                keys.push_str(&format!("query_limits = {{ more_specifics = {{ {inner} }} }}\n"));
            }
        }
    }
    (keys, tables)
}

pub fn config_text(bmp_port: u16, http_port: u16, style: u32, ql: &str, path: &str) -> String {
    let lvl = std::env::var("VH_E2E_LOG").unwrap_or_else(|_| "error".into());
    let (keys, tables) = rib_table(style, ql, path);
    format!(
        "http_listen = [\"127.0.0.1:{http_port}\"]\nlog_level = \"{lvl}\"\nlog_target = \"stderr\"\n\n\
         [units.bmp-in]\ntype = \"bmp-tcp-in\"\nlisten = \"127.0.0.1:{bmp_port}\"\n\n\
         [units.rib]\ntype = \"rib\"\nsources = [\"bmp-in\"]\n{keys}{tables}\n\
         [targets.null]\ntype = \"null-out\"\nsources = [\"rib\"]\n"
    )
}

struct Running {
    rt: Option<tokio::runtime::Runtime>,
    mgr: Manager,
    wedged: bool,
}

struct World {
    ports: Vec<u16>, // bmp, http
    run: Option<Running>,
}

impl World {
    fn load(&mut self, style: u32, ql: &str, path: &str) -> String {
        if self.ports.is_empty() { self.ports = pick_ports(2); }
        let text = config_text(self.ports[0], self.ports[1], style, ql, path);
        if debug() { eprintln!("---- load\n{text}"); }
        match self.run.as_mut() {
            None => {
                // start of the process: src/main.rs
                let rt = tokio::runtime::Builder::new_multi_thread().worker_threads(2).enable_all().build().unwrap();
                let started = {
                    let _g = rt.enter();
                    let mut mgr = Manager::new();
                    let res = ConfigFile::new(text.into_bytes(), Source::default())
                        .map_err(|e| e.to_string())
                        .and_then(|file| Config::from_config_file(file, &mut mgr).map_err(|_| "refused".to_string()));
                    match res {
                        Err(e) => { if debug() { eprintln!("refused: {e}"); } None }
                        Ok((_src, mut config)) => {
                            if config.http.run(mgr.metrics(), mgr.http_resources()).is_err() { panic!("http server did not start"); }
                            mgr.spawn(&mut config);
                            Some(mgr)
                        }
                    }
                };
                match started {
                    None => { rt.shutdown_timeout(Duration::from_millis(200)); "E".into() }
                    Some(mgr) => {
                        let mut r = Running { rt: Some(rt), mgr, wedged: false };
                        r.settle();
                        let w = r.wedged;
                        self.run = Some(r);
                        if w { "STALL".into() } else { "ok".into() }
                    }
                }
            }
            Some(r) => {
                // SIGHUP: src/main.rs re-reads the file; a refused file is logged and nothing else happens
                let ok = {
                    let _g = r.rt.as_ref().unwrap().enter();
                    let res = ConfigFile::new(text.into_bytes(), Source::default())
                        .map_err(|e| e.to_string())
                        .and_then(|file| Config::from_config_file(file, &mut r.mgr).map_err(|_| "refused".to_string()));
                    match res {
                        Err(e) => { if debug() { eprintln!("refused: {e}"); } false }
                        Ok((_src, mut config)) => { r.mgr.spawn(&mut config); true }
                    }
                };
                if !ok { return "E".into(); }
                r.settle();
                if r.wedged { "STALL".into() } else { "ok".into() }
            }
        }
    }

    fn query(&self, af: &str, len: &str, inc: &str, base: &str) -> String {
        if self.run.is_none() { return "down".into(); }
        let addr = if af == "6" { "::" } else { "0.0.0.0" };
        let q = match inc { "m" => "?include=moreSpecifics", "l" => "?include=lessSpecifics", "lm" => "?include=lessSpecifics,moreSpecifics", "-" => "", x => panic!("bad include token {x}") };
        let path = format!("{base}{addr}/{len}{q}");
        let Some((st, body)) = http_get(self.ports[1], &path) else { return "http-error".into() };
        if debug() { eprintln!("GET {path} -> {st}\n{body}"); }
        if st != 200 { return st.to_string(); }
        let Ok(v) = serde_json::from_str::<serde_json::Value>(&body) else { return "200dump".into() };
        let inc = v.get("included");
        let has = |k: &str| inc.and_then(|i| i.get(k)).map(|x| x.is_array()).unwrap_or(false);
        format!("200{}{}", if has("lessSpecifics") { "l" } else { "" }, if has("moreSpecifics") { "m" } else { "" })
    }

    fn stop(mut self) {
        if let Some(mut r) = self.run.take() {
            if !r.wedged { let _g = r.rt.as_ref().unwrap().enter(); r.mgr.terminate(); }
            if let Some(rt) = r.rt.take() { rt.shutdown_timeout(Duration::from_millis(500)); }
        }
    }
}

impl Running {
    /// every unit has left its start-up waitpoint / has taken its Reconfigure (guarded hook Manager::verif_settle)
    fn settle(&mut self) {
        let r = self.rt.as_ref().unwrap().block_on(self.mgr.verif_settle(Duration::from_millis(SETTLE_MS)));
        if let Err(unit) = r {
            if debug() { eprintln!("unit {unit} did not take the load"); }
            self.wedged = true;
        }
    }
}

pub fn run_case(line: &str) -> String {
    let mut w = World { ports: vec![], run: None };
    let mut out: Vec<String> = vec![];
    for op in ops(line) {
        let tok = match op[0] {
            "C" => w.load(op[1].parse().expect("style"), op[2], op[3]),
            "Q" => w.query(op[1], op[2], op[3], op[4]),
            _ => panic!("bad op {:?}", op),
        };
        out.push(tok);
    }
    w.stop();
    out.join(" ")
}

pub fn special(name: &str, _args: &[String]) -> bool {
    match name {
        // ribconf-toml: prints the configuration text of every C op of the case lines on stdin
        "ribconf-toml" => {
            for line in std::io::stdin().lines() {
                let line = line.unwrap();
                for op in ops(&line) {
                    if op[0] == "C" { println!("# ---- {}\n{}", op.join(" "), config_text(11019, 8080, op[1].parse().unwrap(), op[2], op[3])); }
                }
            }
            true
        }
        _ => false,
    }
}
