//! c12tcp: RAW HTTP/1.x request bytes over loopback TCP to the real HTTP server of a real pipeline
//! (the one `e2e` starts per case: ConfigFile -> Manager -> http.run on a probed port, bmp-tcp-in ->
//! rib -> null-out, the unit endpoints `/routers/` and `/prefixes/` registered by the units
//! themselves). Nothing is handed to rotonda in-process: what reaches `Server::handle_request` is
//! what hyper's parser makes of the bytes.
//!
//! Case = ops separated by `;`
//!   K <piece> <piece> ...   one NEW connection; the pieces (one attempted request each) are written
//!                           back to back (pipelined). piece = hex[+hex...] : `+` = flush and pause
//!                           (the request arrives in several segments); a leading `~` on the LAST
//!                           piece = the request is cut: after a pause the client closes its sending
//!                           half and reads to the end.
//!   B                       a BMP router connects (127.0.0.10) and stays silent: its router-info
//!                           endpoint is registered as a sub-resource below /routers/
//!   T <tags>                a label for the evidence (ignored)
//! Observation: per piece one token
//!   <status>,<gzip|->[,<r|e>]   a well-formed response (status line, header lines, body length as
//!                               announced by Content-Length / chunked coding / end of connection, a
//!                               gzip body decodes); 4xx: r = the body is not empty, e = it is (the answer
//!                               to a HEAD has no body: e if it announces Content-Length: 0, else nothing)
//!   closed                      the server closed the connection without (further) response
//!   no-response                 neither a response nor a close within 3 s
//!   MALFORMED(<why>)            bytes that are not a well-formed HTTP/1.x response
//! and at the end of the case `alive` (a GET /status on a new connection answers 200; `dead` if it
//! does not), followed by `,panics=<n>` when tasks of the process panicked during the case.
use crate::engines::e2e::World;
use crate::util::ops;
use rotonda::verif::http as vh;
use std::io::{Read, Write};
use std::net::{Ipv4Addr, Shutdown, SocketAddr, TcpStream};
use std::sync::atomic::{AtomicUsize, Ordering};
use std::time::{Duration, Instant};

const STALL_MS: u64 = 3000;
const CUT_WAIT_MS: u64 = 25;
const SPLIT_WAIT_MS: u64 = 2;

static PANICS: AtomicUsize = AtomicUsize::new(0);

/// counts panics anywhere in the process (a panicking request handler only kills its connection task);
/// chained in front of whatever hook is installed
fn count_panics() {
    static ONCE: std::sync::Once = std::sync::Once::new();
    ONCE.call_once(|| {
        let prev = std::panic::take_hook();
        std::panic::set_hook(Box::new(move |info| {
            PANICS.fetch_add(1, Ordering::SeqCst);
            prev(info);
        }));
    });
}

fn unhex(s: &str) -> Vec<u8> {
    if s == "-" || s == "_" { return vec![]; }
    (0..s.len() / 2).map(|i| u8::from_str_radix(&s[2 * i..2 * i + 2], 16).unwrap()).collect()
}

struct Piece { segs: Vec<Vec<u8>>, cut: bool }

fn parse_piece(t: &str) -> Piece {
    let (cut, t) = match t.strip_prefix('~') { Some(r) => (true, r), None => (false, t) };
    Piece { segs: t.split('+').map(unhex).collect(), cut }
}

/// the method token of a piece as the server will read it (empty lines in front are skipped)
fn is_head(p: &Piece) -> bool {
    let all: Vec<u8> = p.segs.concat();
    let mut i = 0;
    while i < all.len() && (all[i] == b'\r' || all[i] == b'\n') { i += 1; }
    all[i..].starts_with(b"HEAD ")
}

struct Rd { s: TcpStream, buf: Vec<u8>, eof: bool }

impl Rd {
    /// reads more bytes; false at end of stream (or reset) or when the deadline has passed
    fn fill(&mut self, deadline: Instant) -> bool {
        if self.eof { return false; }
        let mut tmp = [0u8; 16384];
        loop {
            let now = Instant::now();
            if now >= deadline { return false; }
            let _ = self.s.set_read_timeout(Some((deadline - now).min(Duration::from_millis(200)).max(Duration::from_millis(1))));
            match self.s.read(&mut tmp) {
                Ok(0) => { self.eof = true; return false; }
                Ok(n) => { self.buf.extend_from_slice(&tmp[..n]); return true; }
                Err(e) if matches!(e.kind(), std::io::ErrorKind::WouldBlock | std::io::ErrorKind::TimedOut | std::io::ErrorKind::Interrupted) => continue,
                Err(_) => { self.eof = true; return false; }
            }
        }
    }
}

enum Got { Resp(String), Closed, Silent, Malformed(String) }

fn tchar(b: u8) -> bool { b.is_ascii_alphanumeric() || b"!#$%&'*+-.^_`|~".contains(&b) }

fn find(h: &[u8], n: &[u8]) -> Option<usize> { h.windows(n.len()).position(|w| w == n) }

/// One response off the connection, judged for well-formedness.
fn read_response(rd: &mut Rd, head_only: bool, deadline: Instant) -> Got {
    loop {
        // ---- head
        let end = loop {
            if let Some(i) = find(&rd.buf, b"\r\n\r\n") { break i; }
            if rd.buf.len() > (1 << 20) { return Got::Malformed("head-without-end".into()); }
            if !rd.fill(deadline) {
                return match (rd.eof, rd.buf.is_empty()) {
                    (true, true) => Got::Closed,
                    (true, false) => Got::Malformed("truncated-head".into()),
                    (false, true) => Got::Silent,
                    (false, false) => Got::Malformed("stalled-head".into()),
                };
            }
        };
        let head: Vec<u8> = rd.buf[..end].to_vec();
        rd.buf.drain(..end + 4);
        let mut lines = head.split(|b| *b == b'\n').map(|l| l.strip_suffix(b"\r").unwrap_or(l));
        let sl = lines.next().unwrap_or(b"");
        // status-line = HTTP/1.x SP 3DIGIT SP reason-phrase
        if sl.len() < 13 || !(sl.starts_with(b"HTTP/1.1 ") || sl.starts_with(b"HTTP/1.0 ")) || !sl[9..12].iter().all(|b| b.is_ascii_digit()) || sl[12] != b' '
            || sl[13..].iter().any(|b| (*b < 0x20 && *b != b'\t') || *b == 0x7f) {
            return Got::Malformed("status-line".into());
        }
        let status: u16 = std::str::from_utf8(&sl[9..12]).unwrap().parse().unwrap();
        let mut cl: Vec<u64> = vec![];
        let mut chunked = false;
        let mut te = 0;
        let mut enc: Vec<String> = vec![];
        for l in lines {
            let Some(c) = l.iter().position(|b| *b == b':') else { return Got::Malformed("header-without-colon".into()) };
            let (name, value) = (&l[..c], &l[c + 1..]);
            if name.is_empty() || !name.iter().all(|b| tchar(*b)) { return Got::Malformed("header-name".into()); }
            if value.iter().any(|b| (*b < 0x20 && *b != b'\t') || *b == 0x7f) { return Got::Malformed("header-value".into()); }
            let v = String::from_utf8_lossy(value).trim().to_string();
            match String::from_utf8_lossy(name).to_ascii_lowercase().as_str() {
                "content-length" => match v.parse::<u64>() { Ok(n) if v.bytes().all(|b| b.is_ascii_digit()) => cl.push(n), _ => return Got::Malformed("content-length".into()) },
                "transfer-encoding" => { te += 1; chunked = v.eq_ignore_ascii_case("chunked"); }
                "content-encoding" => enc.push(v),
                _ => {}
            }
        }
        if te > 0 && (!chunked || te > 1) { return Got::Malformed("transfer-encoding".into()); }
        if chunked && !cl.is_empty() { return Got::Malformed("chunked-and-content-length".into()); }
        if cl.windows(2).any(|w| w[0] != w[1]) { return Got::Malformed("content-lengths-differ".into()); }
        // ---- body
        let bodiless = head_only || status / 100 == 1 || status == 204 || status == 304;
        let mut body: Vec<u8> = vec![];
        if bodiless {
            // (a Content-Length on the answer to a HEAD describes the body that is not sent)
        } else if chunked {
            loop {
                let eol = loop {
                    if let Some(i) = find(&rd.buf, b"\r\n") { break i; }
                    if !rd.fill(deadline) { return Got::Malformed("truncated-chunk-size".into()); }
                };
                let line = String::from_utf8_lossy(&rd.buf[..eol]).to_string();
                let size = line.split(';').next().unwrap_or("").trim();
                let Ok(n) = usize::from_str_radix(size, 16) else { return Got::Malformed("chunk-size".into()) };
                if size.is_empty() { return Got::Malformed("chunk-size".into()); }
                rd.buf.drain(..eol + 2);
                if n == 0 {
                    // trailer section: lines up to an empty one
                    loop {
                        let eol = loop {
                            if let Some(i) = find(&rd.buf, b"\r\n") { break i; }
                            if !rd.fill(deadline) { return Got::Malformed("truncated-trailer".into()); }
                        };
                        rd.buf.drain(..eol + 2);
                        if eol == 0 { break; }
                    }
                    break;
                }
                while rd.buf.len() < n + 2 { if !rd.fill(deadline) { return Got::Malformed("truncated-chunk".into()); } }
                if &rd.buf[n..n + 2] != b"\r\n" { return Got::Malformed("chunk-end".into()); }
                body.extend_from_slice(&rd.buf[..n]);
                rd.buf.drain(..n + 2);
            }
        } else if let Some(n) = cl.first().copied() {
            let n = n as usize;
            while rd.buf.len() < n { if !rd.fill(deadline) { return Got::Malformed(if rd.eof { "body-shorter-than-content-length" } else { "stalled-body" }.into()); } }
            body.extend_from_slice(&rd.buf[..n]);
            rd.buf.drain(..n);
        } else {
            // delimited by the end of the connection
            while rd.fill(deadline) {}
            if !rd.eof { return Got::Malformed("unframed-body-on-open-connection".into()); }
            body = std::mem::take(&mut rd.buf);
        }
        if status / 100 == 1 { continue; }   // interim response: the final one follows
        let (e, plain) = match enc.as_slice() {
            [] => ("-".to_string(), Some(body)),
            [e] if e == "gzip" => {
                if bodiless { ("gzip".to_string(), Some(vec![])) } else {
                    let mut d = vh::flate2::read::GzDecoder::new(&body[..]);
                    let mut v = vec![];
                    match d.read_to_end(&mut v) { Ok(_) => ("gzip".to_string(), Some(v)), Err(_) => ("badgzip".to_string(), None) }
                }
            }
            other => (format!("enc[{}]", other.join("+")), None),
        };
        let mut t = format!("{status},{e}");
        if (400..500).contains(&status) && !bodiless {
            t.push_str(match plain { Some(b) if !b.is_empty() => ",r", _ => ",e" });
        } else if (400..500).contains(&status) && head_only && cl.first() == Some(&0) {
            // the answer to a HEAD has no body; it may say that there would be none
            t.push_str(",e");
        }
        return Got::Resp(t);
    }
}

fn connect(port: u16) -> Option<TcpStream> {
    let t0 = Instant::now();
    loop {
        match TcpStream::connect_timeout(&SocketAddr::from((Ipv4Addr::LOCALHOST, port)), Duration::from_millis(2000)) {
            Ok(s) => { let _ = s.set_nodelay(true); return Some(s); }
            Err(_) if t0.elapsed() < Duration::from_millis(STALL_MS) => std::thread::sleep(Duration::from_millis(2)),
            Err(_) => return None,
        }
    }
}

/// one connection: all pieces written, then one response per piece read
fn run_conn(port: u16, pieces: &[Piece]) -> Vec<String> {
    let n = pieces.len();
    let Some(mut s) = connect(port) else { return vec!["no-connection".to_string(); n] };
    // the writes: segments of adjacent pieces go out together, a `+` is a flush and a pause
    let mut pending: Vec<u8> = vec![];
    for p in pieces {
        for (i, seg) in p.segs.iter().enumerate() {
            if i > 0 {
                let _ = s.write_all(&pending);
                let _ = s.flush();
                pending.clear();
                std::thread::sleep(Duration::from_millis(SPLIT_WAIT_MS));
            }
            pending.extend_from_slice(seg);
        }
    }
    // (a big request may be refused while it is still being written: the write then fails, the answer is read below)
    let _ = s.write_all(&pending);
    let _ = s.flush();
    let cut = pieces.last().map(|p| p.cut).unwrap_or(false);
    let mut rd = Rd { s, buf: vec![], eof: false };
    let mut out: Vec<String> = vec![];
    let mut over = false;
    for (i, p) in pieces.iter().enumerate() {
        if over { out.push("closed".into()); continue; }
        if cut && i == n - 1 {
            std::thread::sleep(Duration::from_millis(CUT_WAIT_MS));
            let _ = rd.s.shutdown(Shutdown::Write);
        }
        match read_response(&mut rd, is_head(p), Instant::now() + Duration::from_millis(STALL_MS)) {
            Got::Resp(t) => out.push(t),
            Got::Closed => { over = true; out.push("closed".into()); }
            Got::Silent => { out.push("no-response".into()); over = true; }
            Got::Malformed(w) => { out.push(format!("MALFORMED({w})")); over = true; }
        }
    }
    if !over && !rd.buf.is_empty() {
        if let Some(l) = out.last_mut() { l.push_str("+extra-bytes"); }
    }
    out
}

pub fn run_case(line: &str) -> String {
    count_panics();
    let before = PANICS.load(Ordering::SeqCst);
    let mut w = World::start(false, 0);
    let mut out: Vec<String> = vec![];
    for op in ops(line) {
        match op[0] {
            "K" => {
                let pieces: Vec<Piece> = op[1..].iter().map(|t| parse_piece(t)).collect();
                out.extend(run_conn(w.http_port, &pieces));
            }
            "B" => { if !w.conns.contains_key(&0) { w.connect(0); } }
            "T" => {}
            _ => panic!("bad op {:?}", op),
        }
    }
    let alive = matches!(w.get("/status"), Some((200, _)));
    let stalled = w.stalled.clone();
    w.stop();
    let panics = PANICS.load(Ordering::SeqCst) - before;
    out.push(format!("{}{}", if alive { "alive" } else { "dead" }, if panics > 0 { format!(",panics={panics}") } else { String::new() }));
    match stalled {
        Some(what) => format!("STALL {} | {}", what.replace(' ', "_"), out.join(" ")),
        None => out.join(" "),
    }
}

pub fn special(name: &str, args: &[String]) -> bool {
    if name == "c12tcp-raw" {
        // debugging aid: vh c12tcp-raw <hex> [<hex> ...] : one connection, prints what comes back verbatim
        let mut w = World::start(false, 0);
        let Some(mut s) = connect(w.http_port) else { println!("no connection"); return true };
        for a in args { let _ = s.write_all(&unhex(a)); }
        let _ = s.flush();
        let mut rd = Rd { s, buf: vec![], eof: false };
        let t = Instant::now() + Duration::from_millis(400);
        while rd.fill(t) {}
        println!("eof={} {:?}", rd.eof, String::from_utf8_lossy(&rd.buf));
        w.stop();
        return true;
    }
    false
}
