//! C16: MRT import. The engine WRITES real MRT files (TABLE_DUMP_V2
//! PEER_INDEX_TABLE + RIB_IPV4/6_UNICAST, BGP4MP / BGP4MP_ET MESSAGE(_AS4) and
//! STATE_CHANGE(_AS4); plain, gzip, bzip2) from the abstract record list of a
//! case, starts the real mrt-file-in unit (HTTP queue endpoint -> queue ->
//! `MrtInRunner::run` -> `process_file` -> gate) through the facade
//! `rotonda::verif::mrt_import`, links a real RIB unit behind the gate and
//! prints what left the gate and what the RIB answers.
//! Same case grammar as oracle/eng_c16.ml (ops separated by ';'):
//!
//!   F c [sub base]      start a new file; c = p plain | g gzip | b bzip2. Without sub/base the file is f<k>.mrt[.gz|.bz2] (k = its
//!                       number in the case) directly in update_path; with them it is <sub>/u<base>.mrt[.gz|.bz2], sub = - (update_path
//!                       itself) or dotted one-letter directories (a, b, a.b = a/b): files of EQUAL NAME in different directories, and
//!                       a path that is written again (the earlier file is replaced once it has been imported)
//!   R k [s]             the path of file (k mod files so far) is queued once more, as it is; s = how the request spells it:
//!                       0 plain, 1 ./<path>, 2 <dir>/../<dir>/<name> (./ if the file has no directory), 3 <dir>//<name>
//!   C k                 a new file f<n>.. holding the same octets as file (k mod files so far): same content under another name
//!   B                   barrier like W; if the unit has not been started yet, the files written so far are its configured
//!                       `filename` list (queued by MrtFileIn::run at start-up) instead of requests to the HTTP endpoint
//!   X k                 an unreadable file; k = m missing | g not gzip (.gz) | b not bzip2 (.bz2) | d a directory
//!   I i,j,..|-          PEER_INDEX_TABLE naming the pool peers i,j,..
//!   T fam pfx i:a,..    RIB_IPVx_UNICAST record for prefix pfx: entries (peer index i, attributes a)
//!   M v p af a ps wf ws BGP4MP message of pool peer p holding an UPDATE (announce ps of family af with
//!                       attributes a, withdraw ws of family wf); v = 2 MESSAGE | 4 MESSAGE_AS4 | 12 | 14 the _ET forms
//!   MB v p hex          BGP4MP message of pool peer p holding the octets `hex` as they are: a BGP PDU from C04's proved
//!                       encoder (oracle c04enc; any of the four families, MP_REACH / MP_UNREACH / conventional fields) or a
//!                       malformed variant of one (an MP attribute whose last NLRI is spoilt next to a good other half, ..)
//!   K v p k             BGP4MP message holding k = o OPEN | k KEEPALIVE | n NOTIFICATION | g bytes that are no BGP message
//!                       | x an UPDATE whose NLRI does not parse
//!   S v p old new       BGP4MP STATE_CHANGE (v = 2) / STATE_CHANGE_AS4 (v = 4) / _ET (12, 14)
//!   N st                a TABLE_DUMP_V2 record of subtype st (3,5,6: multicast / generic) with an empty body
//!   W                   barrier: everything written so far is enqueued (in order, at once) and awaited
//!   Q af pfx            barrier, then query the RIB for the exact prefix
//!   QX af len/hex       the same for a prefix in wire form (af 0 IPv4, 1 IPv6)
//!
//! A record with no open file opens a plain one (so every subsequence of a case is a case).
//! Observation: per barrier `[` <one token per update that left the gate> `]`, per Q also `q:<entries>`.
//! A prefix is shown as the number the abstract ops use when it is 10.<n>.0.0/16 or 2001:db8:<n>::/48, else as
//! <len>/<hex of its octets>; an attribute set as the number of the abstract op that made it when the stored octets
//! are exactly those this engine's encoder wrote for that op, else as n<length>h<FNV-1a of the octets> (as engine pipe).
use crate::util::ops;
use rotonda::comms::Gate;
use rotonda::ingress::Register;
use rotonda::payload::{RotondaRoute, Update};
use rotonda::roto_runtime::types::RouteContext;
use rotonda::verif::mrt::hyper::{Body, Request};
use rotonda::verif::mrt::ProcessRequest;
use rotonda::verif::mrt_import::{bzip2, flate2, Capture, MrtFileIn};
use rotonda::verif::rib::RibUnitRunner;
use rotonda_store::prelude::multi::RouteStatus;
use rotonda_store::{MatchOptions, MatchType};
use std::io::Write;
use std::net::{IpAddr, Ipv4Addr, Ipv6Addr};
use std::path::PathBuf;
use std::str::FromStr;
use std::sync::Arc;

/// peer pool: (address number, AS). Address numbers below 100 are IPv4 192.0.2.n, the others IPv6 2001:db8:ffff::(n-100).
pub const POOL: [(u32, u32); 8] = [
    (1, 65001),
    (1, 65002),      // same address, other AS
    (2, 65001),      // other address, same AS
    (101, 65003),    // IPv6 peer
    (102, 65003),
    (3, 200000),     // four-octet AS
    (103, 4200000001),
    (4, 65004),
];

pub(crate) fn addr_of(n: u32) -> IpAddr {
    if n < 100 { IpAddr::V4(Ipv4Addr::new(192, 0, 2, n as u8)) }
    else { IpAddr::V6(Ipv6Addr::new(0x2001, 0xdb8, 0xffff, 0, 0, 0, 0, (n - 100) as u16)) }
}
pub(crate) fn addr_n(a: IpAddr) -> u32 {
    match a {
        IpAddr::V4(a) => a.octets()[3] as u32,
        IpAddr::V6(a) => 100 + a.segments()[7] as u32,
    }
}

// ---------------------------------------------------------------- attribute sets of the abstract ops
/// the path attribute octets this engine's own encoders wrote for an abstract op (`T` entry, `M` UPDATE) -> its attribute number
static ABSTRACT: std::sync::Mutex<Option<std::collections::HashMap<Vec<u8>, u32>>> = std::sync::Mutex::new(None);
fn note_abstract(blob: &[u8], a: u32) {
    let mut g = ABSTRACT.lock().unwrap_or_else(|e| e.into_inner());
    g.get_or_insert_with(Default::default).entry(blob.to_vec()).or_insert(a);
}
fn fnv(b: &[u8]) -> u32 {
    let mut h: u32 = 0x811c9dc5;
    for x in b {
        h ^= *x as u32;
        h = h.wrapping_mul(16777619);
    }
    h
}
pub(crate) fn attr_tok(meta: &rotonda::payload::RotondaPaMap) -> String {
    let blob = meta.0.clone().into_vec();
    let g = ABSTRACT.lock().unwrap_or_else(|e| e.into_inner());
    match g.as_ref().and_then(|m| m.get(&blob)) {
        Some(a) => a.to_string(),
        None => format!("n{}h{:08x}", blob.len(), fnv(&blob)),
    }
}

// ---------------------------------------------------------------- byte encoders (MRT, BGP)
pub(crate) fn mrt_record(typ: u16, subtype: u16, et: bool, body: &[u8]) -> Vec<u8> {
    let mut v = vec![];
    v.extend_from_slice(&0x6000_0000u32.to_be_bytes());
    v.extend_from_slice(&typ.to_be_bytes());
    v.extend_from_slice(&subtype.to_be_bytes());
    let len = body.len() as u32 + if et { 4 } else { 0 };
    v.extend_from_slice(&len.to_be_bytes());
    if et { v.extend_from_slice(&123456u32.to_be_bytes()); }
    v.extend_from_slice(body);
    v
}

pub(crate) fn push_addr(v: &mut Vec<u8>, a: IpAddr) {
    match a { IpAddr::V4(a) => v.extend_from_slice(&a.octets()), IpAddr::V6(a) => v.extend_from_slice(&a.octets()) }
}

pub(crate) fn pit_record(peers: &[usize]) -> Vec<u8> {
    let mut b = vec![10, 0, 0, 9, 0, 0];
    b.extend_from_slice(&(peers.len() as u16).to_be_bytes());
    for (k, &i) in peers.iter().enumerate() {
        let (a, s) = POOL[i % POOL.len()];
        let addr = addr_of(a);
        let as4 = s > 65535 || k % 2 == 1;
        b.push(if addr.is_ipv6() { 1 } else { 0 } | if as4 { 2 } else { 0 });
        b.extend_from_slice(&[10, 0, 0, (k % 250) as u8 + 1]);
        push_addr(&mut b, addr);
        if as4 { b.extend_from_slice(&s.to_be_bytes()) } else { b.extend_from_slice(&(s as u16).to_be_bytes()) }
    }
    mrt_record(13, 1, false, &b)
}

/// wire form of a prefix: fam 0 -> 10.p.0.0/16, fam 1 -> 2001:db8:p::/48
pub(crate) fn prefix_wire(fam: u32, p: u32) -> Vec<u8> {
    if fam % 2 == 0 { vec![16, 10, p as u8] } else { vec![48, 0x20, 0x01, 0x0d, 0xb8, (p >> 8) as u8, p as u8] }
}
pub fn prefix_str(fam: u32, p: u32) -> String {
    if fam % 2 == 0 { format!("10.{}.0.0/16", p) } else { format!("2001:db8:{:x}::/48", p) }
}

pub(crate) fn attr_origin_aspath(a: u32) -> Vec<u8> {
    let mut v = vec![0x40, 1, 1, 0, 0x40, 2, 10, 2, 2];
    v.extend_from_slice(&(100 + a).to_be_bytes());
    v.extend_from_slice(&200u32.to_be_bytes());
    v
}

pub(crate) fn rib_record(fam: u32, pfx: u32, entries: &[(u16, u32)], seq: u32) -> Vec<u8> {
    let mut b = vec![];
    b.extend_from_slice(&seq.to_be_bytes());
    b.extend_from_slice(&prefix_wire(fam, pfx));
    b.extend_from_slice(&(entries.len() as u16).to_be_bytes());
    for &(idx, a) in entries {
        b.extend_from_slice(&idx.to_be_bytes());
        b.extend_from_slice(&0x5fff_0000u32.to_be_bytes());
        let mut at = attr_origin_aspath(a);
        if fam % 2 == 0 { at.extend_from_slice(&[0x40, 3, 4, 10, 0, 0, 1]); }
        note_abstract(&at, a);
        b.extend_from_slice(&(at.len() as u16).to_be_bytes());
        b.extend_from_slice(&at);
    }
    mrt_record(13, if fam % 2 == 0 { 2 } else { 4 }, false, &b)
}

pub(crate) fn plist(tok: &str) -> Vec<u32> {
    if tok == "-" { vec![] } else { tok.split(',').map(|t| t.parse().unwrap()).collect() }
}

pub(crate) fn bgp_msg(typ: u8, body: &[u8]) -> Vec<u8> {
    let mut v = vec![0xffu8; 16];
    v.extend_from_slice(&((19 + body.len()) as u16).to_be_bytes());
    v.push(typ);
    v.extend_from_slice(body);
    v
}

/// a BGP UPDATE (four-octet AS path): announce `ps` of family af with attributes a, withdraw `ws` of family wf
pub(crate) fn bgp_update(af: u32, a: u32, ps: &[u32], wf: u32, ws: &[u32]) -> Vec<u8> {
    let mut withdrawn = vec![];
    let mut attrs = vec![];
    let mut nlri = vec![];
    if !ws.is_empty() {
        if wf % 2 == 0 { for &p in ws { withdrawn.extend_from_slice(&prefix_wire(0, p)); } }
        else {
            let mut m = vec![0, 2, 1];
            for &p in ws { m.extend_from_slice(&prefix_wire(1, p)); }
            attrs.extend_from_slice(&[0x90, 15]);
            attrs.extend_from_slice(&(m.len() as u16).to_be_bytes());
            attrs.extend_from_slice(&m);
        }
    }
    if !ps.is_empty() {
        attrs.extend_from_slice(&attr_origin_aspath(a));
        if af % 2 == 0 {
            attrs.extend_from_slice(&[0x40, 3, 4, 10, 0, 0, 1]);
            for &p in ps { nlri.extend_from_slice(&prefix_wire(0, p)); }
        } else {
            let mut m = vec![0, 2, 1, 16, 0x20, 0x01, 0x0d, 0xb8, 0, 0, 0, 0, 0, 0, 0, 0, 0, 0, 0, 1, 0];
            for &p in ps { m.extend_from_slice(&prefix_wire(1, p)); }
            attrs.extend_from_slice(&[0x90, 14]);
            attrs.extend_from_slice(&(m.len() as u16).to_be_bytes());
            attrs.extend_from_slice(&m);
        }
    }
    if !ps.is_empty() { note_abstract(&attrs, a); }
    let mut b = vec![];
    b.extend_from_slice(&(withdrawn.len() as u16).to_be_bytes());
    b.extend_from_slice(&withdrawn);
    b.extend_from_slice(&(attrs.len() as u16).to_be_bytes());
    b.extend_from_slice(&attrs);
    b.extend_from_slice(&nlri);
    bgp_msg(2, &b)
}

pub(crate) fn bgp_other(kind: &str) -> Vec<u8> {
    match kind {
        "o" => bgp_msg(1, &[4, 0xfd, 0xe9, 0, 180, 10, 0, 0, 1, 0]),
        "k" => bgp_msg(4, &[]),
        "n" => bgp_msg(3, &[6, 2]),
        // not a BGP message at all: wrong marker, impossible length
        "g" => vec![0u8, 1, 2, 3, 4, 5, 6, 7, 8, 9, 10, 11, 12, 13, 14, 15, 0, 5, 2],
        // an UPDATE whose NLRI claims a /33 IPv4 prefix
        _ => {
            let mut at = attr_origin_aspath(1);
            at.extend_from_slice(&[0x40, 3, 4, 10, 0, 0, 1]);
            let mut b = vec![0, 0];
            b.extend_from_slice(&(at.len() as u16).to_be_bytes());
            b.extend_from_slice(&at);
            b.extend_from_slice(&[33, 10, 1, 2, 3, 4]);
            bgp_msg(2, &b)
        }
    }
}

/// the wire identity of pool peer p in a record of variant v (AS2 records carry the AS modulo 2^16)
pub fn wire_peer(v: u32, p: usize) -> (u32, u32) {
    let (a, s) = POOL[p % POOL.len()];
    if v % 10 == 2 { (a, s % 65536) } else { (a, s) }
}

pub(crate) fn bgp4mp_header(v: u32, p: usize) -> Vec<u8> {
    let (a, s) = wire_peer(v, p);
    let addr = addr_of(a);
    let mut b = vec![];
    if v % 10 == 2 {
        b.extend_from_slice(&(s as u16).to_be_bytes());
        b.extend_from_slice(&64999u16.to_be_bytes());
    } else {
        b.extend_from_slice(&s.to_be_bytes());
        b.extend_from_slice(&64999u32.to_be_bytes());
    }
    b.extend_from_slice(&0u16.to_be_bytes());
    b.extend_from_slice(&(if addr.is_ipv6() { 2u16 } else { 1u16 }).to_be_bytes());
    push_addr(&mut b, addr);
    push_addr(&mut b, if addr.is_ipv6() { addr_of(199) } else { addr_of(99) });
    b
}

pub(crate) fn bgp4mp_message(v: u32, p: usize, msg: &[u8]) -> Vec<u8> {
    let mut b = bgp4mp_header(v, p);
    b.extend_from_slice(msg);
    mrt_record(if v >= 10 { 17 } else { 16 }, if v % 10 == 2 { 1 } else { 4 }, v >= 10, &b)
}

pub(crate) fn bgp4mp_state(v: u32, p: usize, old: u16, new: u16) -> Vec<u8> {
    let mut b = bgp4mp_header(v, p);
    b.extend_from_slice(&old.to_be_bytes());
    b.extend_from_slice(&new.to_be_bytes());
    mrt_record(if v >= 10 { 17 } else { 16 }, if v % 10 == 2 { 0 } else { 5 }, v >= 10, &b)
}

// ---------------------------------------------------------------- files
#[derive(Clone)]
enum FileSpec { Good { comp: char, bytes: Vec<u8> }, Bad(char) }

/// where a file of the case lives, relative to update_path: directories, then the name (without the compression's extension)
#[derive(Clone)]
struct Place { dirs: Vec<String>, stem: String }
impl Place {
    fn default_for(k: usize) -> Place { Place { dirs: vec![], stem: format!("f{k}") } }
    fn parse(sub: &str, base: &str) -> Place {
        let dirs = if sub == "-" { vec![] } else { sub.split('.').map(|d| d.chars().take(1).collect::<String>()).collect() };
        Place { dirs, stem: format!("u{}", base.parse::<u32>().unwrap()) }
    }
}
/// one entry of the queue: a path, with what is written there just before it is queued (if anything)
struct Entry { rel_dirs: Vec<String>, name: String, write: Option<FileSpec>, exists: bool, spelling: u32 }
impl Entry {
    fn rel(&self) -> String { let mut v = self.rel_dirs.clone(); v.push(self.name.clone()); v.join("/") }
    /// the text of the request's `file` parameter
    fn request(&self) -> String {
        let dir = self.rel_dirs.join("/");
        match (self.spelling % 4, self.rel_dirs.is_empty()) {
            (0, _) => self.rel(),
            (1, _) | (2, true) => format!("./{}", self.rel()),
            (2, false) => format!("{dir}/../{}/{}", self.rel_dirs.last().unwrap(), self.name),
            (_, true) => format!(".//{}", self.name),
            (_, false) => format!("{dir}//{}", self.name),
        }
    }
}
fn file_name(stem: &str, f: &FileSpec) -> String {
    match f {
        FileSpec::Good { comp: 'g', .. } | FileSpec::Bad('g') => format!("{stem}.mrt.gz"),
        FileSpec::Good { comp: 'b', .. } | FileSpec::Bad('b') => format!("{stem}.mrt.bz2"),
        _ => format!("{stem}.mrt"),
    }
}

pub(crate) fn scratch_root() -> PathBuf {
    // <verif>/.cache/target/release/vh  ->  <verif>/.cache/c16/<pid>
    let exe = std::env::current_exe().unwrap();
    let cache = exe.parent().and_then(|p| p.parent()).and_then(|p| p.parent()).unwrap().to_path_buf();
    assert!(cache.ends_with(".cache"), "vh is expected to live in <verif>/.cache/target/<profile>/");
    cache.join("c16").join(format!("{}", std::process::id()))
}

/// writes the file at `p` (its directory is made); false if the spec is a file that does not exist
fn write_file(p: &std::path::Path, f: &FileSpec) -> bool {
    if let Some(d) = p.parent() { std::fs::create_dir_all(d).unwrap(); }
    // a path that is written again: the new file takes the place of the old one, as a mirror job does (write aside, rename)
    let put = |data: &[u8]| {
        let tmp = p.with_extension("tmp-verif");
        std::fs::write(&tmp, data).unwrap();
        std::fs::rename(&tmp, p).unwrap();
    };
    match f {
        FileSpec::Good { comp, bytes } => {
            match comp {
                'g' => {
                    let mut e = flate2::write::GzEncoder::new(vec![], flate2::Compression::fast());
                    e.write_all(bytes).unwrap();
                    put(&e.finish().unwrap())
                }
                'b' => {
                    let mut e = bzip2::write::BzEncoder::new(vec![], bzip2::Compression::fast());
                    e.write_all(bytes).unwrap();
                    put(&e.finish().unwrap())
                }
                _ => put(bytes),
            };
            true
        }
        FileSpec::Bad(kind) => match kind {
            'g' => { put(b"this is not gzip data at all"); true }
            'b' => { put(b"this is not bzip2 data at all"); true }
            'd' => { std::fs::create_dir_all(p).unwrap(); true }
            _ => false,
        },
    }
}

// ---------------------------------------------------------------- observation
pub(crate) fn first_hop(meta: &rotonda::payload::RotondaPaMap) -> u32 {
    let v = serde_json::to_value(meta).unwrap_or(serde_json::Value::Null);
    if let Some(arr) = v.as_array() {
        for item in arr {
            if let Some(p) = item.get("asPath").and_then(|x| x.as_array()) {
                if let Some(h) = p.first() {
                    let s = h.as_str().map(|s| s.to_string()).unwrap_or_else(|| h.to_string());
                    let digits: String = s.chars().filter(|c| c.is_ascii_digit()).collect();
                    return digits.parse::<u32>().unwrap_or(0).saturating_sub(100);
                }
            }
        }
    }
    if std::env::var("VH_DEBUG").is_ok() { eprintln!("PAMAP {}", v); }
    9999
}

pub(crate) struct Namer { pub(crate) reg: Arc<Register>, pub(crate) parent: u32 }
impl Namer {
    /// `p<addr>.<as>` from the register's record of the id, with `#k` (rank among the ids
    /// registered for the same peer under the unit) when the peer has more than one id
    pub(crate) fn name(&self, id: u32) -> String {
        let info = match self.reg.get(id) { Some(i) => i, None => return format!("?{id}") };
        let (a, s) = match (info.remote_addr, info.remote_asn) { (Some(a), Some(s)) => (a, s), _ => return format!("?{id}") };
        if info.parent_ingress != Some(self.parent) { return format!("?parent{id}"); }
        let mut same: Vec<u32> = self.reg.ids_for_parent(self.parent).into_iter()
            .filter(|i| self.reg.get(*i).map(|x| x.remote_addr == Some(a) && x.remote_asn == Some(s)).unwrap_or(false)).collect();
        same.sort();
        let base = format!("p{}.{}", addr_n(a), s.into_u32());
        if same.len() > 1 { format!("{base}#{}", same.iter().position(|x| *x == id).unwrap()) } else { base }
    }
    pub(crate) fn wire(&self, id: u32) -> String {
        let n = self.name(id);
        n.split('#').next().unwrap().to_string()
    }
}

/// the prefix as the case names it: the abstract ops' number, or <len>/<hex of the octets the length covers>
pub(crate) fn prefix_tok(fam: u32, p: inetnum::addr::Prefix) -> String {
    if let Some(k) = (0..256u32).find(|k| inetnum::addr::Prefix::from_str(&prefix_str(fam, *k)).ok() == Some(p)) {
        return format!("{k}");
    }
    let octs: Vec<u8> = match p.addr() { IpAddr::V4(a) => a.octets().to_vec(), IpAddr::V6(a) => a.octets().to_vec() };
    let n = (p.len() as usize + 7) / 8;
    let hex: String = octs[..n].iter().map(|b| format!("{b:02x}")).collect();
    format!("{}/{}", p.len(), if hex.is_empty() { "-".to_string() } else { hex })
}

pub(crate) fn route_tok(r: &RotondaRoute) -> (String, String) {
    let (fam, s, meta) = match r {
        RotondaRoute::Ipv4Unicast(n, m) => (0, n.to_string(), m),
        RotondaRoute::Ipv6Unicast(n, m) => (1, n.to_string(), m),
        RotondaRoute::Ipv4Multicast(n, m) => (2, n.to_string(), m),
        RotondaRoute::Ipv6Multicast(n, m) => (3, n.to_string(), m),
    };
    // back from the text of the prefix to the case's prefix number / wire form
    match inetnum::addr::Prefix::from_str(&s) {
        Ok(p) => (format!("{fam}.{}", prefix_tok(fam, p)), attr_tok(meta)),
        Err(_) => (format!("{fam}.?{s}"), attr_tok(meta)),
    }
}

/// a prefix in wire form <len>/<hex|->; af 0 IPv4, 1 IPv6
pub(crate) fn wire_prefix(af: u32, tok: &str) -> Option<inetnum::addr::Prefix> {
    let (l, h) = tok.split_once('/')?;
    let len: u8 = l.parse().ok()?;
    let bs = if h == "-" { vec![] } else { super::c04::unhex(h)? };
    let addr = if af % 2 == 0 {
        let mut o = [0u8; 4];
        if bs.len() > 4 { return None; }
        o[..bs.len()].copy_from_slice(&bs);
        IpAddr::V4(Ipv4Addr::from(o))
    } else {
        let mut o = [0u8; 16];
        if bs.len() > 16 { return None; }
        o[..bs.len()].copy_from_slice(&bs);
        IpAddr::V6(Ipv6Addr::from(o))
    };
    inetnum::addr::Prefix::new(addr, len).ok()
}

pub(crate) fn show_update(nm: &Namer, u: &Update) -> String {
    let ctx = |c: &RouteContext| -> (RouteStatus, u32, Option<(IpAddr, u32)>) {
        match c {
            RouteContext::Mrt(c) => (c.status, c.provenance().ingress_id, Some((c.provenance().peer_ip, c.provenance().peer_asn.into_u32()))),
            RouteContext::Fresh(c) => (c.status, c.provenance().ingress_id, None),
            _ => (RouteStatus::Active, u32::MAX, None),
        }
    };
    let prov_ok = |id: u32, pr: Option<(IpAddr, u32)>| -> &'static str {
        match (pr, nm.reg.get(id)) {
            (Some((a, s)), Some(i)) if i.remote_addr == Some(a) && i.remote_asn.map(|x| x.into_u32()) == Some(s) => "",
            _ => "!prov",
        }
    };
    match u {
        Update::Single(p) => {
            let (st, id, pr) = ctx(&p.context);
            let (k, a) = route_tok(&p.rx_value);
            format!("s:{}{}:{}{}={}", nm.name(id), prov_ok(id, pr), if st == RouteStatus::Active { "+" } else { "-" }, k, a)
        }
        Update::Bulk(ps) => {
            let mut ids: Vec<u32> = vec![];
            let mut items: Vec<String> = vec![];
            let mut bad = "";
            for p in ps.iter() {
                let (st, id, pr) = ctx(&p.context);
                if !ids.contains(&id) { ids.push(id) }
                if !prov_ok(id, pr).is_empty() { bad = "!prov" }
                let (k, a) = route_tok(&p.rx_value);
                items.push(if st == RouteStatus::Active { format!("+{k}={a}") } else { format!("-{k}") });
            }
            let who: Vec<String> = ids.iter().map(|i| nm.name(*i)).collect();
            format!("u:{}{}:{}", who.join("&"), bad, items.join(","))
        }
        Update::Withdraw(id, None) => format!("w:{}", nm.name(*id)),
        Update::Withdraw(id, Some(f)) => format!("w:{}:{}", nm.name(*id), f),
        Update::WithdrawBulk(ids) => format!("W:{}", ids.iter().map(|i| nm.name(*i)).collect::<Vec<_>>().join("&")),
        _ => "other-update".into(),
    }
}

pub fn run_case(line: &str) -> String {
    let root = scratch_root();
    let _ = std::fs::remove_dir_all(&root);
    std::fs::create_dir_all(&root).unwrap();
    let root = root.canonicalize().unwrap();
    let res = std::panic::catch_unwind(std::panic::AssertUnwindSafe(|| run_in(line, &root)));
    let _ = std::fs::remove_dir_all(&root);
    match res { Ok(s) => s, Err(e) => std::panic::resume_unwind(e) }
}

fn run_in(line: &str, root: &std::path::Path) -> String {
    let rt = tokio::runtime::Builder::new_multi_thread().worker_threads(2).enable_all().build().unwrap();
    let reg = Arc::new(rotonda::verif::ingress::new_register());
    let (rib, _rib_agent) = { let _g = rt.enter(); RibUnitRunner::verif_new(reg.clone()) };
    let rib = Arc::new(rib);
    let (gate, mut agent) = Gate::new(8);
    let mut link = agent.create_link();
    let rib2 = rib.clone();
    let capture = Capture::new(move |u: Update| {
        let rib = rib2.clone();
        async move { let _ = rib.verif_process_update(u).await; }
    });
    link.set_direct_update_target(capture.clone());
    // The RIB is linked to the unit's gate BEFORE the unit starts (in the application every link is connected before the
    // wait point lets the units run): the files of the configured `filename` list are on the queue from the first moment on.
    rt.block_on(async {
        tokio::select! {
            r = link.connect(false) => r.expect("link connects"),
            _ = async { loop { let _ = gate.process().await; } } => unreachable!(),
        }
    });
    let gate = std::cell::RefCell::new(Some(gate));
    let parent = std::cell::Cell::new(u32::MAX);
    // the unit, started at the first barrier: (hook handle, the task of MrtInRunner::run)
    let started: std::cell::RefCell<Option<(rotonda::verif::mrt_import::VerifUnit, tokio::task::JoinHandle<Result<(), rotonda::comms::Terminated>>)>> = std::cell::RefCell::new(None);

    let mut out: Vec<String> = vec![];
    let mut pending: Vec<Entry> = vec![];
    let mut cur: Option<(char, Vec<u8>, Option<Place>)> = None;
    // every file of the case as it was made: (directories, name, spec, exists)
    let mut table: Vec<(Vec<String>, String, FileSpec, bool)> = vec![];
    let mut seq = 0u32;

    fn new_file(place: Option<Place>, spec: FileSpec, table: &mut Vec<(Vec<String>, String, FileSpec, bool)>, pending: &mut Vec<Entry>) {
        let place = place.unwrap_or_else(|| Place::default_for(table.len()));
        let name = file_name(&place.stem, &spec);
        let exists = !matches!(spec, FileSpec::Bad(k) if k != 'g' && k != 'b' && k != 'd');
        table.push((place.dirs.clone(), name.clone(), spec.clone(), exists));
        pending.push(Entry { rel_dirs: place.dirs, name, write: Some(spec), exists, spelling: 0 });
    }
    fn close(cur: &mut Option<(char, Vec<u8>, Option<Place>)>, table: &mut Vec<(Vec<String>, String, FileSpec, bool)>, pending: &mut Vec<Entry>) {
        if let Some((comp, bytes, place)) = cur.take() { new_file(place, FileSpec::Good { comp, bytes }, table, pending); }
    }

    // one group of entries: written, then put on the queue in order at once, then every answer awaited
    let flush = |group: Vec<Entry>, boot: bool, answers: &mut Vec<String>| {
        let mut paths: Vec<(PathBuf, &Entry)> = vec![];
        for e in group.iter() {
            let path = root.join(e.rel());
            if let Some(spec) = &e.write { write_file(&path, spec); }
            paths.push((path, e));
        }
        let mut started = started.borrow_mut();
        let as_config = boot && started.is_none();
        if started.is_none() {
            let files: Vec<PathBuf> = if as_config { paths.iter().map(|(p, _)| p.clone()).collect() } else { vec![] };
            let cfg = MrtFileIn::verif_config(files, Some(root.to_path_buf()));
            let (unit, run_fut) = rt.block_on(cfg.verif_start("mrt-in", gate.borrow_mut().take().unwrap(), reg.clone()));
            parent.set(unit.parent_id);
            *started = Some((unit, rt.spawn(run_fut)));
        }
        let unit = &started.as_ref().unwrap().0;
        let mut futs: Vec<std::pin::Pin<Box<dyn std::future::Future<Output = String> + Send>>> = vec![];
        if as_config {
            // the configured files have no enqueuer to answer to: the queue is consumed in order, so the answer for one
            // more entry behind them (a file that does not exist, straight onto the queue) says they are all done
            let tx = unit.queue_tx.clone();
            let sentinel = root.join("no-such-file.sentinel");
            futs.push(Box::pin(async move {
                let (otx, orx) = tokio::sync::oneshot::channel();
                if tx.send((sentinel, Some(otx))).await.is_err() { return "closed".into(); }
                match orx.await { Ok(_) => "200".into(), Err(_) => "dropped".into() }
            }));
        } else {
            for (path, e) in paths.iter() {
                if e.exists {
                    let name = e.request();
                    let p = unit.processor.clone();
                    futs.push(Box::pin(async move {
                        let req = Request::builder().method("GET").uri(format!("/mrt/mrt-in/queue?file={name}")).body(Body::empty()).unwrap();
                        match p.process_request(&req).await {
                            Some(r) => format!("{}", r.status().as_u16()),
                            None => "none".into(),
                        }
                    }));
                } else {
                    // a file that vanished between the endpoint's check and the unit's open: straight onto the queue
                    let tx = unit.queue_tx.clone();
                    let path = path.clone();
                    futs.push(Box::pin(async move {
                        let (otx, orx) = tokio::sync::oneshot::channel();
                        if tx.send((path, Some(otx))).await.is_err() { return "closed".into(); }
                        match orx.await { Ok(_) => "200".into(), Err(_) => "dropped".into() }
                    }));
                }
            }
        }
        answers.extend(rt.block_on(async { futures_join(futs).await }));
    };
    let barrier = |pending: &mut Vec<Entry>, out: &mut Vec<String>, boot: bool| {
        // entries go onto the queue in order at once - except that a path which is written again waits until the
        // entries already queued under it have been imported (the queue holds names; the unit opens a file when its turn comes)
        let mut answers: Vec<String> = vec![];
        let mut group: Vec<Entry> = vec![];
        for e in pending.drain(..) {
            if e.write.is_some() && group.iter().any(|g| g.rel() == e.rel()) {
                flush(std::mem::take(&mut group), boot, &mut answers);
            }
            group.push(e);
        }
        if !group.is_empty() || boot { flush(group, boot, &mut answers); }
        let nm = Namer { reg: reg.clone(), parent: parent.get() };
        out.push("[".into());
        for u in capture.take() { out.push(show_update(&nm, &u)); }
        // every file gets an answer from the unit, whatever happened to it
        if answers.iter().all(|a| a == "200") { out.push("]".into()) } else { out.push(format!("]{}", answers.join("/"))) }
    };

    for op in ops(line) {
        let n = |i: usize| op[i].parse::<u32>().unwrap();
        let mut rec = |bytes: Vec<u8>, cur: &mut Option<(char, Vec<u8>, Option<Place>)>| {
            if cur.is_none() { *cur = Some(('p', vec![], None)); }
            cur.as_mut().unwrap().1.extend_from_slice(&bytes);
        };
        match op[0] {
            "F" => {
                close(&mut cur, &mut table, &mut pending);
                let place = if op.len() >= 4 { Some(Place::parse(op[2], op[3])) } else { None };
                cur = Some((op[1].chars().next().unwrap(), vec![], place));
            }
            "X" => { close(&mut cur, &mut table, &mut pending); new_file(None, FileSpec::Bad(op[1].chars().next().unwrap()), &mut table, &mut pending); }
            "R" => {
                close(&mut cur, &mut table, &mut pending);
                if !table.is_empty() {
                    let (dirs, name, _, exists) = table[n(1) as usize % table.len()].clone();
                    pending.push(Entry { rel_dirs: dirs, name, write: None, exists, spelling: if op.len() > 2 { n(2) } else { 0 } });
                }
            }
            "C" => {
                close(&mut cur, &mut table, &mut pending);
                if !table.is_empty() {
                    let spec = table[n(1) as usize % table.len()].2.clone();
                    new_file(None, spec, &mut table, &mut pending);
                }
            }
            "I" => rec(pit_record(&plist(op[1]).iter().map(|x| *x as usize).collect::<Vec<_>>()), &mut cur),
            "T" => {
                let es: Vec<(u16, u32)> = if op[3] == "-" { vec![] } else {
                    op[3].split(',').map(|e| { let (i, a) = e.split_once(':').unwrap(); (i.parse().unwrap(), a.parse().unwrap()) }).collect() };
                seq += 1;
                rec(rib_record(n(1), n(2), &es, seq), &mut cur)
            }
            "M" => rec(bgp4mp_message(n(1), n(2) as usize, &bgp_update(n(3), n(4), &plist(op[5]), n(6), &plist(op[7]))), &mut cur),
            "MB" => rec(bgp4mp_message(n(1), n(2) as usize, &super::c04::unhex(op[3]).expect("MB: hex")), &mut cur),
            "K" => rec(bgp4mp_message(n(1), n(2) as usize, &bgp_other(op[3])), &mut cur),
            "S" => rec(bgp4mp_state(n(1), n(2) as usize, n(3) as u16, n(4) as u16), &mut cur),
            "N" => rec(mrt_record(13, n(1) as u16, false, &[]), &mut cur),
            "W" | "B" => { close(&mut cur, &mut table, &mut pending); barrier(&mut pending, &mut out, op[0] == "B"); }
            "Q" | "QX" => {
                close(&mut cur, &mut table, &mut pending);
                barrier(&mut pending, &mut out, false);
                let af = n(1);
                let pfx = if op[0] == "Q" { inetnum::addr::Prefix::from_str(&prefix_str(af, n(2))).unwrap() }
                          else { wire_prefix(af, op[2]).expect("QX: prefix") };
                let mo = MatchOptions { match_type: MatchType::ExactMatch, include_withdrawn: true, include_less_specifics: false, include_more_specifics: false, mui: None };
                let res = rib.verif_rib().match_prefix(&pfx, &mo).unwrap();
                let nm = Namer { reg: reg.clone(), parent: parent.get() };
                let mut es: Vec<String> = res.prefix_meta.iter().map(|r| {
                    format!("{}={}{}", nm.wire(r.multi_uniq_id), if r.status == RouteStatus::Active { "A" } else { "W" }, attr_tok(&r.meta))
                }).collect();
                es.sort();
                out.push(format!("q:{}", es.join(",")));
            }
            _ => panic!("bad op {:?}", op),
        }
    }
    close(&mut cur, &mut table, &mut pending);
    if !pending.is_empty() { barrier(&mut pending, &mut out, false); }
    let mut started = started.into_inner();
    rt.block_on(async {
        agent.terminate().await;
        if let Some((_, runner)) = started.as_mut() { let _ = tokio::time::timeout(std::time::Duration::from_secs(2), runner).await; }
    });
    {
        let _g = rt.enter();
        drop(link);
        drop(started);
        drop(gate);
        drop(capture);
        drop(rib);
        drop(_rib_agent);
    }
    rt.shutdown_background();
    out.join(" ")
}

/// join futures, polling them in order: the first poll of each request runs up to (and through) its
/// queue send, so the queue order is the order of the list
pub(crate) async fn futures_join(mut fs: Vec<std::pin::Pin<Box<dyn std::future::Future<Output = String> + Send>>>) -> Vec<String> {
    let mut outs: Vec<Option<String>> = fs.iter().map(|_| None).collect();
    std::future::poll_fn(move |cx| {
        let mut pending = false;
        for (i, f) in fs.iter_mut().enumerate() {
            if outs[i].is_some() { continue; }
            match f.as_mut().poll(cx) {
                std::task::Poll::Ready(s) => outs[i] = Some(s),
                std::task::Poll::Pending => pending = true,
            }
        }
        if pending { std::task::Poll::Pending } else { std::task::Poll::Ready(outs.iter_mut().map(|o| o.take().unwrap()).collect()) }
    }).await
}

pub fn special(_name: &str, _args: &[String]) -> bool { false }
