//! C19, raw variant: same cases as engine c19, but every rendered page is
//! printed as hex instead of being tokenised here. `oracle c19tok` runs the
//! tokenizer EXTRACTED FROM COQ over these real pages; the result must equal
//! what engine c19 printed (cross-check of the Rust port of the tokenizer).
pub fn run_case(line: &str) -> String { super::c19::run_ops(line, true) }
pub fn special(_name: &str, _args: &[String]) -> bool { false }
