//! C04, third ingress path: the same UPDATE bytes on an established BGP
//! session: parsed with the negotiated SessionConfig and handed to
//! bgp_tcp_in's `Processor::process_update`; observed are the payloads of the
//! Update::Bulk it returns (route + status of its context: Active -> A,
//! Withdrawn -> W). Same case grammar and observation format as engine c04.
use super::c04::{framed, run_with, show_route, unhex};
use bytes::Bytes;
use rotonda::verif::bgp::{bgp_session_process_update, RouteStatus};
use routecore::bgp::message::{SessionConfig, UpdateMessage};

fn run_pdu(cfg: &str, hex: &str) -> Vec<String> {
    let err = vec!["ERR".to_string()];
    let bytes = unhex(hex).expect("bad hex");
    if !framed(&bytes) {
        return err;
    }
    let sc = if cfg.ends_with('l') { SessionConfig::legacy() } else { SessionConfig::modern() };
    let upd = match UpdateMessage::from_octets(Bytes::from(bytes), &sc) {
        Ok(u) => u,
        Err(_) => return err,
    };
    match bgp_session_process_update(upd) {
        Err(_) => err,
        Ok(routes) => {
            let mut out = vec!["ok".to_string()];
            for (r, status) in routes.iter() {
                let kind = match status {
                    RouteStatus::Active => 'A',
                    RouteStatus::Withdrawn => 'W',
                    _ => '?',
                };
                out.push(show_route(kind, r));
            }
            out
        }
    }
}

pub fn run_case(line: &str) -> String {
    run_with(line, run_pdu)
}

pub fn special(_name: &str, _args: &[String]) -> bool {
    false
}
