pub mod c14;

pub type Engine = fn(&str) -> String;

pub fn lookup(name: &str) -> Option<Engine> {
    match name {
        "c14" => Some(c14::run_case),
        _ => None,
    }
}

/// Engines that do not follow the line-per-case protocol (thread soaks etc.).
pub fn special(name: &str, args: &[String]) -> bool {
    match name {
        "c14-race" => { c14::race(args); true }
        _ => false,
    }
}
