//! C04: BGP UPDATE bytes -> route events, on the real code.
//! Case grammar (same as oracle/eng_c04.ml): PDUs separated by ';', each
//!   <s|w><m|l> <hex> [tag]     (tag: the generator's label for the PDU, ignored)
//! s = strict comparison (one token per route), w = weak (whole PDU in one token);
//! m / l = SessionConfig::modern() (4-octet AS) / legacy() (2-octet AS).
//! Observation per PDU: `|` then `ERR`, or `ok` followed by one token per route
//!   <A|W><4u|4m|6u|6m>:<hex of the ceil(len/8) prefix bytes or ->/<len>:<n<bytes>h<fnv1a32> of the attribute blob>
//! announcements first, then withdrawals - the composition used by the three
//! ingress paths (bmp_tcp_in machine.rs, bgp_tcp_in router_handler.rs, mrt_file_in unit.rs):
//! an error of either explode function makes the whole UPDATE yield nothing.
use bytes::Bytes;
use rotonda::payload::RotondaRoute;
use rotonda::verif::bgp::{explode_announcements, explode_withdrawals};
use routecore::bgp::message::{SessionConfig, UpdateMessage};
use routecore::bgp::nlri::afisafi::IsPrefix;
use std::net::IpAddr;

pub(crate) fn unhex(s: &str) -> Option<Vec<u8>> {
    if s.len() % 2 != 0 {
        return None;
    }
    (0..s.len()).step_by(2).map(|i| u8::from_str_radix(s.get(i..i + 2)?, 16).ok()).collect()
}

fn fnv(b: &[u8]) -> u32 {
    let mut h: u32 = 0x811c9dc5;
    for x in b {
        h ^= *x as u32;
        h = h.wrapping_mul(16777619);
    }
    h
}

fn show_prefix(p: inetnum::addr::Prefix) -> String {
    let len = p.len() as usize;
    let octs: Vec<u8> = match p.addr() {
        IpAddr::V4(a) => a.octets().to_vec(),
        IpAddr::V6(a) => a.octets().to_vec(),
    };
    let n = (len + 7) / 8;
    let dirty = octs[n.min(octs.len())..].iter().any(|b| *b != 0);
    let hex: String = if n == 0 { "-".into() } else { octs[..n.min(octs.len())].iter().map(|b| format!("{b:02x}")).collect() };
    format!("{hex}/{len}{}", if dirty { "!hostbits" } else { "" })
}

pub(crate) fn show_route(kind: char, r: &RotondaRoute) -> String {
    let (fam, pfx) = match r {
        RotondaRoute::Ipv4Unicast(n, _) => ("4u", n.prefix()),
        RotondaRoute::Ipv4Multicast(n, _) => ("4m", n.prefix()),
        RotondaRoute::Ipv6Unicast(n, _) => ("6u", n.prefix()),
        RotondaRoute::Ipv6Multicast(n, _) => ("6m", n.prefix()),
    };
    let raw = r.owned_map().clone().into_vec();
    format!("{kind}{fam}:{}:n{}h{:08x}", show_prefix(pfx), raw.len(), fnv(&raw))
}

/// framing is the transport's business (BGP / BMP / MRT record length): the
/// explode path is only ever handed exactly one message
pub(crate) fn framed(bytes: &[u8]) -> bool {
    bytes.len() >= 19 && u16::from_be_bytes([bytes[16], bytes[17]]) as usize == bytes.len()
}

fn run_pdu(cfg: &str, hex: &str) -> Vec<String> {
    let err = vec!["ERR".to_string()];
    let bytes = match unhex(hex) {
        Some(b) => b,
        None => panic!("bad hex"),
    };
    if !framed(&bytes) {
        return err;
    }
    let sc = if cfg.ends_with('l') { SessionConfig::legacy() } else { SessionConfig::modern() };
    let upd = match UpdateMessage::from_octets(Bytes::from(bytes), &sc) {
        Ok(u) => u,
        Err(_) => return err,
    };
    let reach = match explode_announcements(&upd) {
        Ok(r) => r,
        Err(_) => return err,
    };
    let unreach = match explode_withdrawals(&upd) {
        Ok(r) => r,
        Err(_) => return err,
    };
    let mut out = vec!["ok".to_string()];
    out.extend(reach.iter().map(|r| show_route('A', r)));
    out.extend(unreach.iter().map(|r| show_route('W', r)));
    out
}

pub fn run_case(line: &str) -> String {
    run_with(line, run_pdu)
}

pub(crate) fn run_with(line: &str, f: fn(&str, &str) -> Vec<String>) -> String {
    let mut out: Vec<String> = vec![];
    for op in crate::util::ops(line) {
        assert!(op.len() >= 2, "pdu: <cfg> <hex> [tag] expected");
        let toks = f(op[0], op[1]);
        out.push("|".into());
        if op[0].starts_with('w') {
            out.push(toks.join(","));
        } else {
            out.extend(toks);
        }
    }
    out.join(" ")
}

pub fn special(_name: &str, _args: &[String]) -> bool {
    false
}
