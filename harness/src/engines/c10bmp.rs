//! c10bmp: the bmp-in call site. A real bmp RouterHandler (one router
//! connection, real BmpState) with the compiled filter installed; every frame
//! goes through RouterHandler::process_msg; what leaves the gate is captured.
//! Case grammar: `F bmp <prog|none>` then, per op, four tokens out:[..] upd:[..] ph:<phase> n:<counters>
//!   I | T | S <peer> | X <peer> | U <peer> | D <peer> | R <peer> <tag> <attrs> <ann|-> <wd|->
//! (S = Statistics Report, X = Route Mirroring: the two per-peer message types the state machine ignores)
//! n:<received per RFC 7854 type 0..6, dot separated>,p<processed>,i<invalid> = the per-router counters of the
//! connection handler, read from the Prometheus text of the unit's metrics (summed over router labels): what
//! the handler counted says whether the filter let the message through to the state machine.
//! peers: 0 = AS65001 (4-octet AS capable), 1 = AS65002 (2-octet only), 2 = AS174 (4-octet)
use crate::engines::c10::{self, parse_attrs, parse_filter, plist, roto_source, update_bytes};
use crate::engines::c10rib::{payload_tok_with, show_osm_with};
use bytes::Bytes;
use rotonda::bgp::encode as enc;
use rotonda::ingress::Register;
use rotonda::payload::Update;
use rotonda::verif::filter as vf;
use std::net::{IpAddr, Ipv4Addr};
use std::sync::Arc;

pub const PEERS: [(u8, u32, bool); 3] = [(1, 65001, true), (2, 65002, false), (3, 174, true)];

fn pph(i: usize) -> enc::PerPeerHeader {
    let (a, s, _) = PEERS[i];
    enc::PerPeerHeader {
        peer_type: routecore::bmp::message::PeerType::GlobalInstance.into(),
        peer_flags: 0,
        peer_distinguisher: [0; 8],
        peer_address: IpAddr::V4(Ipv4Addr::new(192, 0, 2, a)),
        peer_as: inetnum::asn::Asn::from_u32(s),
        peer_bgp_id: [0, 0, 0, a],
    }
}

/// Peer Up whose two OPENs carry (or not) the 4-octet AS number capability (RFC 6793)
fn peer_up_bytes(i: usize) -> Bytes {
    let (_, asn, as4) = PEERS[i];
    let base = enc::mk_peer_up_notification_msg(&pph(i), "10.0.0.1".parse().unwrap(), 11019, 4567, 111, 222, 0, 0, vec![], false);
    if !as4 { return base; }
    let b = base.to_vec();
    assert_eq!(b.len(), 68 + 29 + 29, "layout of the test encoder's Peer Up");
    let mut v = b[..68].to_vec();
    for k in 0..2 {
        let open = &b[68 + 29 * k..68 + 29 * (k + 1)];
        let mut o = open[..28].to_vec();
        o.push(8); // optional parameters length
        o.extend_from_slice(&[2, 6, 65, 4]); // capabilities parameter: 4-octet AS number
        o.extend_from_slice(&(if k == 0 { 65000u32 } else { asn }).to_be_bytes());
        let l = (o.len() as u16).to_be_bytes();
        o[16] = l[0];
        o[17] = l[1];
        v.extend_from_slice(&o);
    }
    let l = (v.len() as u32).to_be_bytes();
    v[1..5].copy_from_slice(&l);
    Bytes::from(v)
}

/// Route Mirroring (RFC 7854 section 4.7): common header (version 3, length, type 6), the per-peer header, one
/// TLV (type 1 = Information, length 2, code 1 = Messages Lost). The test encoder has no writer for this type;
/// the per-peer header octets are those the encoder writes for a Statistics Report about the same peer.
pub fn route_mirroring_bytes(pph: &enc::PerPeerHeader) -> Bytes {
    let stats = enc::mk_statistics_report_msg(pph);
    assert!(stats.len() >= 48 && stats[5] == 1, "layout of the test encoder's Statistics Report");
    let mut v = vec![3u8, 0, 0, 0, 0, 6];
    v.extend_from_slice(&stats[6..48]);
    v.extend_from_slice(&[0, 1, 0, 2, 0, 1]);
    let l = (v.len() as u32).to_be_bytes();
    v[1..5].copy_from_slice(&l);
    Bytes::from(v)
}

/// BMP_RFC_7854_MSG_TYPE_NAMES as RFC 7854 section 4.1 lists the types (the harness's own copy)
const TYPE_NAMES: [&str; 7] = ["Route Monitoring", "Statistics Report", "Peer Down Notification", "Peer Up Notification",
                               "Initiation Message", "Termination Message", "Route Mirroring Message"];

/// n:<received by type>,p<processed>,i<invalid> from the Prometheus text of the connection's metrics
fn counters(text: &str) -> String {
    let p = match super::promtext::parse(text) { Ok(p) => p, Err(e) => return format!("n:BAD:{}", e.replace(' ', "_")) };
    let sum = |name: &str, ty: Option<&str>| -> String {
        let mut n = 0u64;
        for s in p.samples.iter().filter(|s| s.name == name && ty.map_or(true, |t| s.label("msg_type") == Some(t))) {
            match s.value.parse::<u64>() { Ok(v) => n += v, Err(_) => return "?".into() }
        }
        n.to_string()
    };
    let recv: Vec<String> = TYPE_NAMES.iter().map(|t| sum("rotonda_bmp_tcp_in_num_bmp_messages_received_total", Some(t))).collect();
    format!("n:{},p{},i{}", recv.join("."), sum("rotonda_bmp_tcp_in_num_bmp_messages_processed_total", None),
            sum("rotonda_bmp_in_num_invalid_bmp_messages_total", None))
}

fn peer_of(reg: &Register, rid: u32, id: u32) -> String {
    if id == rid { return "r".into(); }
    match reg.get(id).and_then(|i| i.remote_asn) {
        Some(a) => match PEERS.iter().position(|p| p.1 == a.into_u32()) { Some(i) => format!("p{i}"), None => format!("?{id}") },
        None => format!("?{id}"),
    }
}

pub fn run_case(line: &str) -> String {
    let ops = crate::util::ops(line);
    if ops.is_empty() { return String::new(); }
    let (kind, prog) = parse_filter(&ops[0]);
    assert!(kind == "bmp");
    let rt = tokio::runtime::Builder::new_current_thread().enable_all().build().unwrap();
    let _g = rt.enter();
    let reg = Arc::new(rotonda::verif::ingress::new_register());
    let rid = reg.verif_register();
    let f = match &prog {
        Some(p) => match c10::compile(&roto_source(&kind, p)) {
            // BmpTcpIn::run: the function named bmp-in of the loaded script, if any
            Ok(mut s) => s.bmp_in(),
            Err(e) => return format!("COMPILE-ERROR {}", e.replace('\n', " ")),
        },
        None => None,
    };
    let (router, mut agent) = vf::FilteredRouter::new(f, "198.51.100.1:1790".parse().unwrap(), rid, reg.clone());
    let cap = rt.block_on(vf::Capture::attach(router.gate(), &mut agent));
    let mut out: Vec<String> = vec![];
    for op in &ops[1..] {
        let peer = |k: usize| op[k].parse::<usize>().unwrap();
        let frame = match op[0] {
            "I" => enc::mk_initiation_msg("r", "d"),
            "T" => enc::mk_termination_msg(),
            "S" => enc::mk_statistics_report_msg(&pph(peer(1))),
            "X" => route_mirroring_bytes(&pph(peer(1))),
            "U" => peer_up_bytes(peer(1)),
            "D" => enc::mk_peer_down_notification_msg(&pph(peer(1))),
            "R" => {
                let mut a = parse_attrs(op[3]);
                a.tag = op[2].parse().unwrap();
                enc::mk_raw_route_monitoring_msg(&pph(peer(1)), update_bytes(&a, &plist(op[4]), &plist(op[5]), PEERS[peer(1)].2))
            }
            _ => panic!("bad op {:?}", op),
        };
        let res = rt.block_on(router.process(frame));
        let idn = |id: u32| peer_of(&reg, rid, id);
        let mut outs = vec![];
        let mut upds = vec![];
        let mut late = false;
        for u in cap.take() {
            match &u {
                Update::OutputStream(ms) => { if !upds.is_empty() { late = true; } outs.extend(ms.iter().map(|m| show_osm_with(m, &idn))) }
                Update::Bulk(ps) => upds.extend(ps.iter().map(|p| payload_tok_with(p, &idn))),
                Update::Single(p) => upds.push(payload_tok_with(p, &idn)),
                Update::Withdraw(id, _) => upds.push(format!("w#{}", idn(*id))),
                Update::WithdrawBulk(ids) => { let mut v: Vec<String> = ids.iter().map(|i| idn(*i)).collect(); v.sort(); upds.push(format!("W#{}", v.join("+"))) }
                _ => upds.push("other".into()),
            }
        }
        out.push(format!("out:[{}]{}", outs.join(","), if late { "!late" } else { "" }));
        out.push(format!("upd:[{}]", upds.join(",")));
        let ph = rt.block_on(router.phase());
        out.push(match res { Some(Ok(())) => format!("ph:{ph}"), Some(Err(e)) => format!("ph:{ph}!{}", e.replace(' ', "_")), None => "ph:unparsable".into() });
        out.push(counters(&router.metrics_prometheus()));
    }
    out.join(" ")
}

pub fn special(_name: &str, _args: &[String]) -> bool { false }
