//! C09: concurrent writers on one RIB unit. Same case grammar as
//! oracle/eng_c09.ml. `run_case` replays the chosen interleaving of whole
//! Updates on one real RibUnitRunner from a single thread (real
//! RibUnitRunner::process_update -> Rib::insert / withdraw_for_ingress ->
//! rotonda-store, answers through Rib::match_prefix). `c09-soak` (special) runs
//! T free-running writer threads plus readers on one RibUnitRunner and prints
//! what it did as a case line for the oracle to judge.
//! `W id f` with f >= 4 is Update::Withdraw(id, Some(family)) for a family
//! Rib::withdraw_for_ingress has no arm for: that call panics (under the Rib's
//! withdraw mutex, which it poisons). The panic is caught around that ONE
//! process_update call and is its observation (`panic`); everything after it
//! runs on the same Rib.
use crate::engines::pipe::prefix_str;
use crate::util::ops;
use rotonda::payload::{Payload, RotondaPaMap, RotondaRoute, Update, UpstreamStatus};
use rotonda::roto_runtime::types::{FreshRouteContext, Provenance, RouteContext};
use rotonda::verif::rib::RibUnitRunner;
use rotonda_store::prelude::multi::RouteStatus;
use rotonda_store::{MatchOptions, MatchType};
use routecore::bgp::message::{SessionConfig, UpdateMessage};
use routecore::bgp::path_attributes::OwnedPathAttributes;
use routecore::bgp::types::AfiSafiType;
use smallvec::SmallVec;
use std::collections::{BTreeMap, BTreeSet};
use std::net::{IpAddr, Ipv4Addr};
use std::str::FromStr;
use std::sync::atomic::{AtomicBool, AtomicU64, AtomicUsize, Ordering};
use std::sync::{Arc, Mutex};
use std::time::{Duration, Instant};

/// attribute sets are identified by the first hop of the AS path (100 + a), as in the pipe engine
struct Attrs {
    cache: Mutex<BTreeMap<u32, (UpdateMessage<bytes::Bytes>, RotondaPaMap)>>,
}

impl Attrs {
    fn new() -> Self { Attrs { cache: Mutex::new(BTreeMap::new()) } }
    fn get(&self, a: u32) -> (UpdateMessage<bytes::Bytes>, RotondaPaMap) {
        let mut c = self.cache.lock().unwrap();
        c.entry(a).or_insert_with(|| {
            let bytes = crate::engines::pipe::update_bytes(0, a, "1", 0, "-");
            let msg = UpdateMessage::from_octets(bytes, &SessionConfig::modern()).unwrap();
            let pas = msg.path_attributes().unwrap();
            let pamap = RotondaPaMap(pas.into());
            (msg, pamap)
        }).clone()
    }
    /// what explode_withdrawals attaches to a withdrawn route: no attributes
    fn empty(&self) -> (UpdateMessage<bytes::Bytes>, RotondaPaMap) {
        let (msg, _) = self.get(0);
        let pamap = RotondaPaMap(OwnedPathAttributes::new(msg.pdu_parse_info(), vec![]));
        (msg, pamap)
    }
}

fn route(fam: u32, pfx: u32, pamap: RotondaPaMap) -> RotondaRoute {
    let p = inetnum::addr::Prefix::from_str(&prefix_str(fam, pfx)).unwrap();
    match fam {
        0 => RotondaRoute::Ipv4Unicast(p.try_into().unwrap(), pamap),
        1 => RotondaRoute::Ipv6Unicast(p.try_into().unwrap(), pamap),
        2 => RotondaRoute::Ipv4Multicast(p.try_into().unwrap(), pamap),
        _ => RotondaRoute::Ipv6Multicast(p.try_into().unwrap(), pamap),
    }
}

fn payload(attrs: &Attrs, tok: &str) -> Payload {
    let f: Vec<&str> = tok.split(':').collect();
    assert!(f.len() == 4, "bad payload {tok}");
    let (id, fam, pfx): (u32, u32, u32) = (f[0].parse().unwrap(), f[1].parse().unwrap(), f[2].parse().unwrap());
    let ip = IpAddr::V4(Ipv4Addr::new(203, 0, 113, (id % 250) as u8));
    let prov = Provenance::for_bgp(id, ip, inetnum::asn::Asn::from_u32(64500 + id));
    let (status, (msg, pamap)) = if f[3] == "w" {
        (RouteStatus::Withdrawn, attrs.empty())
    } else {
        (RouteStatus::Active, attrs.get(f[3].parse().unwrap()))
    };
    let ctx: RouteContext = FreshRouteContext::new(msg, status, prov).into();
    Payload::new(route(fam, pfx, pamap), ctx, None)
}

/// 0..3: the four families of the RIB's stores (RibModel's numbering); 4..: families the RIB cannot withdraw
fn afisafi(f: u32) -> AfiSafiType {
    match f {
        0 => AfiSafiType::Ipv4Unicast,
        1 => AfiSafiType::Ipv6Unicast,
        2 => AfiSafiType::Ipv4Multicast,
        3 => AfiSafiType::Ipv6Multicast,
        4 => AfiSafiType::Ipv4MplsUnicast,
        5 => AfiSafiType::Ipv6MplsUnicast,
        6 => AfiSafiType::Ipv4MplsVpnUnicast,
        7 => AfiSafiType::Ipv6MplsVpnUnicast,
        8 => AfiSafiType::Ipv4RouteTarget,
        9 => AfiSafiType::Ipv4FlowSpec,
        10 => AfiSafiType::Ipv6FlowSpec,
        11 => AfiSafiType::L2VpnVpls,
        12 => AfiSafiType::L2VpnEvpn,
        n => AfiSafiType::Unsupported(1000 + n as u16, (n % 200) as u8),
    }
}

/// how one process_update call ended
#[derive(Clone, Copy, PartialEq, Eq, Debug)]
enum Outcome { Ok, Err, Panic }

impl Outcome {
    fn tok(self) -> &'static str { match self { Outcome::Ok => "ok", Outcome::Err => "err", Outcome::Panic => "panic" } }
}

/// one Update through the real process_update, as DirectUpdate::direct_update
/// runs it on the publisher's task; a panic is caught around this one call
fn process(rt: &tokio::runtime::Runtime, rib: &RibUnitRunner, u: Update) -> Outcome {
    match std::panic::catch_unwind(std::panic::AssertUnwindSafe(|| rt.block_on(async { rib.verif_process_update(u).await }))) {
        Ok(Ok(())) => Outcome::Ok,
        Ok(Err(_)) => Outcome::Err,
        Err(_) => Outcome::Panic,
    }
}

fn update(attrs: &Attrs, op: &[&str]) -> Update {
    match op[0] {
        "B" => {
            let mut v: SmallVec<[Payload; 8]> = SmallVec::new();
            for t in op[1].split(',') { v.push(payload(attrs, t)); }
            Update::Bulk(v)
        }
        "S" => Update::Single(payload(attrs, op[1])),
        "W" => Update::Withdraw(op[1].parse().unwrap(), if op[2] == "-" { None } else { Some(afisafi(op[2].parse().unwrap())) }),
        "X" => Update::WithdrawBulk(op[1].split(',').map(|t| t.parse::<u32>().unwrap()).collect()),
        "E" => Update::UpstreamStatusChange(UpstreamStatus::EndOfStream { ingress_id: op[1].parse().unwrap() }),
        _ => panic!("bad update {:?}", op),
    }
}

fn prefixes_of(op: &[&str]) -> Vec<u32> {
    match op[0] {
        "B" | "S" => op[1].split(',').map(|t| t.split(':').nth(2).unwrap().parse().unwrap()).collect(),
        _ => vec![],
    }
}

fn first_hop(meta: &RotondaPaMap) -> u32 {
    let v = serde_json::to_value(meta).unwrap_or(serde_json::Value::Null);
    if let Some(arr) = v.as_array() {
        for item in arr {
            if let Some(p) = item.get("asPath").and_then(|x| x.as_array()) {
                if let Some(h) = p.first() {
                    let s = h.as_str().map(|s| s.to_string()).unwrap_or_else(|| h.to_string());
                    let digits: String = s.chars().filter(|c| c.is_ascii_digit()).collect();
                    return digits.parse::<u32>().unwrap_or(0).saturating_sub(100);
                }
            }
        }
    }
    9999
}

fn entries(rib: &RibUnitRunner, af: u32, pfx: u32) -> Vec<(u32, bool, u32)> {
    let p = inetnum::addr::Prefix::from_str(&prefix_str(af, pfx)).unwrap();
    let mo = MatchOptions { match_type: MatchType::ExactMatch, include_withdrawn: true, include_less_specifics: false, include_more_specifics: false, mui: None };
    let res = rib.verif_rib().match_prefix(&p, &mo).unwrap();
    let mut es: Vec<(u32, bool, u32)> = res.prefix_meta.iter()
        .map(|r| (r.multi_uniq_id, r.status == RouteStatus::Active, first_hop(&r.meta))).collect();
    es.sort();
    es
}

fn show_query(rib: &RibUnitRunner, af: u32, pfx: u32) -> String {
    let es: Vec<String> = entries(rib, af, pfx).into_iter()
        .map(|(id, s, a)| format!("{}={}{}", id, if s { "A" } else { "W" }, a)).collect();
    format!("q:{}/{}:{}", af, pfx, es.join(","))
}

fn new_runner(rt: &tokio::runtime::Runtime) -> RibUnitRunner {
    let reg = Arc::new(rotonda::verif::ingress::new_register());
    let _g = rt.enter();
    let (rib, agent) = RibUnitRunner::verif_new(reg);
    std::mem::forget(agent);
    rib
}

pub fn run_case(line: &str) -> String {
    let rt = tokio::runtime::Builder::new_current_thread().enable_all().build().unwrap();
    let rib = new_runner(&rt);
    let attrs = Attrs::new();
    let items = ops(line);
    let mut progs: Vec<std::collections::VecDeque<Update>> = vec![];
    let mut pfxs: BTreeSet<u32> = BTreeSet::new();
    for it in &items {
        match it[0] {
            "p" => {
                let t: usize = it[1].parse().unwrap();
                while progs.len() <= t { progs.push(Default::default()); }
                pfxs.extend(prefixes_of(&it[2..]));
                progs[t].push_back(update(&attrs, &it[2..]));
            }
            "s" => { let t: usize = it[1].parse().unwrap(); while progs.len() <= t { progs.push(Default::default()); } }
            "q" => { pfxs.insert(it[2].parse().unwrap()); }
            _ => panic!("bad item {:?}", it),
        }
    }
    let mut out: Vec<String> = vec![];
    let exec = |progs: &mut Vec<std::collections::VecDeque<Update>>, t: usize| -> Option<Outcome> {
        let u = progs[t].pop_front()?;
        Some(process(&rt, &rib, u))
    };
    for it in &items {
        match it[0] {
            "s" => {
                let t: usize = it[1].parse().unwrap();
                out.push(match exec(&mut progs, t) { Some(o) => o.tok().into(), None => "-".into() });
            }
            "q" => out.push(show_query(&rib, it[1].parse().unwrap(), it[2].parse().unwrap())),
            _ => {}
        }
    }
    for t in 0..progs.len() {
        while let Some(o) = exec(&mut progs, t) { if o != Outcome::Ok { out.push(o.tok().into()); } }
    }
    out.push("F".into());
    for af in 0..2u32 { for p in &pfxs { out.push(show_query(&rib, af, *p)); } }
    out.join(" ")
}

pub fn special(name: &str, args: &[String]) -> bool {
    if name == "c09-soak" { soak(args); true } else { false }
}

struct Sm(u64);
impl Sm {
    fn next(&mut self) -> u64 {
        self.0 = self.0.wrapping_add(0x9E3779B97F4A7C15);
        let mut z = self.0;
        z = (z ^ (z >> 30)).wrapping_mul(0xBF58476D1CE4E5B9);
        z = (z ^ (z >> 27)).wrapping_mul(0x94D049BB133111EB);
        z ^ (z >> 31)
    }
    fn below(&mut self, n: u64) -> u64 { if n == 0 { 0 } else { self.next() % n } }
}

const IDS_PER_WRITER: u32 = 3;
const NPFX: u32 = 5;

/// the Updates writer t will issue: routes for its own ids on the shared
/// prefixes (attribute numbers a with a % nthreads == t, so that a reader can
/// tell whose attributes it sees), session-wide withdrawals of its own ids
fn writer_ops(t: u32, nthreads: u32, n: usize, seed: u64, wd_pct: u64, unsup_pm: u64) -> Vec<String> {
    let mut r = Sm(seed ^ ((t as u64 + 1) << 32));
    // id 1 of a writer never loses its whole session, id 2 only single families, id 3 anything:
    // the final RIB then still distinguishes announced from withdrawn (the marker is sticky)
    let id = |r: &mut Sm| 100 * (t + 1) + 1 + r.below(IDS_PER_WRITER as u64) as u32;
    let wid = |r: &mut Sm| 100 * (t + 1) + 2 + r.below(IDS_PER_WRITER as u64 - 1) as u32;
    let pay = |r: &mut Sm| {
        let i = id(r);
        let fam = if r.below(100) < 70 { r.below(2) } else { 2 + r.below(2) } as u32;
        let p = 1 + r.below(NPFX as u64) as u32;
        if r.below(100) < 72 { format!("{}:{}:{}:{}", i, fam, p, t + nthreads * (r.below(6) as u32)) } else { format!("{}:{}:{}:w", i, fam, p) }
    };
    let mut v = vec![];
    for k in 0..n {
        let late = k * 10 >= n * 9; // whole-session losses of id 3 mostly near the end
        let x = r.below(100);
        // now and then a session asks for a family the RIB cannot withdraw (that call panics, nothing else may)
        if unsup_pm > 0 && r.below(1000) < unsup_pm {
            v.push(format!("W {} {}", id(&mut r), 4 + r.below(11)));
            continue;
        }
        if x < wd_pct / 2 {
            let i = wid(&mut r);
            if i % 100 == 2 || !late { v.push(format!("W {} {}", i, 1 + 2 * r.below(2))); } else { v.push(format!("W {} -", i)); }
        } else if x < wd_pct {
            if late {
                let m = 1 + r.below(2);
                let ids: Vec<String> = (0..m).map(|_| (100 * (t + 1) + 3).to_string()).collect();
                v.push(format!("X {}", ids.join(",")));
            } else {
                v.push(format!("W {} {}", wid(&mut r), 1 + 2 * r.below(2)));
            }
        } else if x < wd_pct + 2 {
            v.push(format!("E {}", id(&mut r)));
        } else if x < wd_pct + 2 + (98 - wd_pct) / 2 {
            v.push(format!("S {}", pay(&mut r)));
        } else {
            let m = 2 + r.below(5);
            let ps: Vec<String> = (0..m).map(|_| pay(&mut r)).collect();
            v.push(format!("B {}", ps.join(",")));
        }
    }
    v
}

/// c09-soak <writers> <ops-per-writer> <seed> <per-op-deadline-ms> <readers> [withdraw-percent] [unsupported-family-per-mille]
/// line 1: "ok ..." | "stall ..." | "corrupt ..." | "panic ..." ; line 2: the case (p items); line 3: final answers
pub fn soak(args: &[String]) {
    let arg = |i: usize, d: u64| args.get(i).map(|s| s.parse::<u64>().unwrap()).unwrap_or(d);
    let (nt, nops, seed, deadline_ms, nreaders, wd_pct, unsup_pm) = (arg(0, 8) as u32, arg(1, 1500) as usize, arg(2, 1), arg(3, 5000), arg(4, 2) as u32, arg(5, 16), arg(6, 0));
    let rt = Arc::new(tokio::runtime::Builder::new_multi_thread().worker_threads(nt as usize).enable_all().build().unwrap());
    let rib = Arc::new(new_runner(&rt));
    let attrs = Arc::new(Attrs::new());
    let texts: Vec<Vec<String>> = (0..nt).map(|t| writer_ops(t, nt, nops, seed, wd_pct, unsup_pm)).collect();
    // the only calls that may panic: Withdraw for a family the RIB has no arm for
    let must_panic: Vec<Vec<bool>> = texts.iter().map(|ops_t| ops_t.iter().map(|s| {
        let toks: Vec<&str> = s.split_whitespace().collect();
        toks[0] == "W" && toks[2] != "-" && toks[2].parse::<u32>().unwrap() >= 4
    }).collect()).collect();
    let wrong_outcome: Arc<Mutex<Option<String>>> = Arc::new(Mutex::new(None));
    let panics = Arc::new(AtomicUsize::new(0));
    // build the Updates up front so that the threads do little else than call process_update
    let progs: Vec<Vec<Update>> = texts.iter().map(|ops_t| ops_t.iter().map(|s| {
        let toks: Vec<&str> = s.split_whitespace().collect();
        update(&attrs, &toks)
    }).collect()).collect();
    let started: Vec<Arc<AtomicU64>> = (0..nt).map(|_| Arc::new(AtomicU64::new(0))).collect(); // ms since t0 at which the current op began (0 = none)
    let done_ops: Vec<Arc<AtomicUsize>> = (0..nt).map(|_| Arc::new(AtomicUsize::new(0))).collect();
    let finished = Arc::new(AtomicUsize::new(0));
    let max_us = Arc::new(AtomicU64::new(0));
    let stop_readers = Arc::new(AtomicBool::new(false));
    let corrupt: Arc<Mutex<Option<String>>> = Arc::new(Mutex::new(None));
    let reads = Arc::new(AtomicU64::new(0));
    let t0 = Instant::now();
    let gate = Arc::new(std::sync::Barrier::new(nt as usize + 1));
    for (t, prog) in progs.into_iter().enumerate() {
        let (rib, rt, st, dn, fin, mx, gate) = (rib.clone(), rt.clone(), started[t].clone(), done_ops[t].clone(), finished.clone(), max_us.clone(), gate.clone());
        let (expect, texts_t, wrong, panics) = (must_panic[t].clone(), texts[t].clone(), wrong_outcome.clone(), panics.clone());
        std::thread::spawn(move || {
            gate.wait();
            for (k, u) in prog.into_iter().enumerate() {
                let b = Instant::now();
                st.store(t0.elapsed().as_millis() as u64 + 1, Ordering::SeqCst);
                // as DirectUpdate::direct_update does on the publisher's task
                let o = process(&rt, &rib, u);
                if o == Outcome::Panic { panics.fetch_add(1, Ordering::SeqCst); }
                if (o == Outcome::Panic) != expect[k] {
                    let mut w = wrong.lock().unwrap();
                    if w.is_none() {
                        *w = Some(format!("writer {} update #{} `{}` {}", t, k, texts_t[k],
                            if expect[k] { "returned although the RIB has no support for that family" } else { "panicked" }));
                    }
                }
                st.store(0, Ordering::SeqCst);
                mx.fetch_max(b.elapsed().as_micros() as u64, Ordering::SeqCst);
                dn.fetch_add(1, Ordering::SeqCst);
            }
            fin.fetch_add(1, Ordering::SeqCst);
        });
    }
    for r in 0..nreaders {
        let (rib, stop, corrupt, reads) = (rib.clone(), stop_readers.clone(), corrupt.clone(), reads.clone());
        std::thread::spawn(move || {
            let mut rg = Sm(seed ^ 0xabcdef ^ (r as u64));
            while !stop.load(Ordering::SeqCst) {
                let (af, p) = (rg.below(2) as u32, 1 + rg.below(NPFX as u64) as u32);
                let es = entries(&rib, af, p);
                reads.fetch_add(1, Ordering::Relaxed);
                let mut seen = BTreeSet::new();
                for (id, _, a) in &es {
                    let owner = id / 100 - 1;
                    let bad = !seen.insert(*id) || owner >= nt || (id % 100) == 0 || (id % 100) > IDS_PER_WRITER || a % nt != owner;
                    if bad {
                        let mut c = corrupt.lock().unwrap();
                        if c.is_none() { *c = Some(format!("reader saw {:?} for af {} prefix {}", es, af, p)); }
                    }
                }
            }
        });
    }
    gate.wait();
    // watchdog
    let mut verdict = String::new();
    loop {
        std::thread::sleep(Duration::from_millis(20));
        if finished.load(Ordering::SeqCst) == nt as usize { break; }
        let now = t0.elapsed().as_millis() as u64 + 1;
        for t in 0..nt as usize {
            let s = started[t].load(Ordering::SeqCst);
            if s != 0 && now > s + deadline_ms {
                let k = done_ops[t].load(Ordering::SeqCst);
                let fin = finished.load(Ordering::SeqCst);
                verdict = format!("stall writer {} has been inside process_update for more than {} ms: update #{} `{}` ({} of {} writers finished)",
                                  t, deadline_ms, k, texts[t].get(k).cloned().unwrap_or_default(), fin, nt);
                break;
            }
        }
        if !verdict.is_empty() { break; }
    }
    stop_readers.store(true, Ordering::SeqCst);
    if verdict.is_empty() {
        if let Some(c) = corrupt.lock().unwrap().clone() { verdict = format!("corrupt {c}"); }
    }
    if verdict.is_empty() {
        if let Some(w) = wrong_outcome.lock().unwrap().clone() { verdict = format!("panic {w}"); }
    }
    if verdict.is_empty() {
        verdict = format!("ok writers={} updates={} reads={} max_update_us={} wall_ms={} panics={}", nt, nt as usize * nops,
                          reads.load(Ordering::Relaxed), max_us.load(Ordering::SeqCst), t0.elapsed().as_millis(), panics.load(Ordering::SeqCst));
    }
    println!("{verdict}");
    let mut items: Vec<String> = vec![];
    for (t, ops_t) in texts.iter().enumerate() { for o in ops_t { items.push(format!("p {} {}", t, o)); } }
    println!("{}", items.join(";"));
    if verdict.starts_with("stall") {
        println!("-");
    } else {
        let mut out: Vec<String> = vec!["F".into()];
        for af in 0..2u32 { for p in 1..=NPFX { out.push(show_query(&rib, af, p)); } }
        println!("{}", out.join(" "));
    }
    use std::io::Write;
    std::io::stdout().flush().unwrap();
    // spinning writers cannot be joined
    std::process::exit(0);
}
