//! c14u: the units' registration and lookup SITES on one ingress register (property C14): does the unit's own
//! lookup find the source the unit filed earlier, whichever of its sites filed it? The sites are run through the
//! REAL code wherever that is possible without a network:
//!   mrt-file-in   the real unit (`verif_start`: queue -> `MrtInRunner::run` -> `process_file`) on MRT files this engine
//!                 writes (c16's encoders): table dump (peer index table -> register + update_info per entry), BGP4MP
//!                 message (`process_message`: find_existing_peer, else register), BGP4MP state change Established -> Idle
//!                 (`process_state_change`: find_existing_peer); the id a file's records were filed under is read off
//!                 the updates that leave the unit's gate
//!   bmp peer      the real BMP state machine (`rotonda::verif::bmp::Session`): Initiation + Peer Up -> `add_peer_config`
//!                 (find_existing_peer with parent = the router's id, address, AS, RIB view; else register)
//!   bmp router,   the two calls of the accept loops (bmp-tcp-in unit.rs: find_existing_bmp_router(parent = the unit's id,
//!   bgp session   remote address) else register + update_info(query); bgp-tcp-in: register() per connection, update_info(name,
//!                 address, AS) on Established) are made by this engine itself: they need a TCP listener (the bmp accept
//!                 loop runs for real in engine e2e, which property C14 also uses)
//! Same case grammar as oracle/eng_c14u.ml (ops separated by ';'; peers p = 0..4 of PEERS; routers by address number a):
//!   D p,q,..   a table dump naming the peers p,q,.. (one RIB record with an entry per index)
//!   U p        an updates file: one BGP4MP_MESSAGE_AS4 of peer p announcing a prefix
//!   S p        an updates file: one BGP4MP_STATE_CHANGE_AS4 of peer p, Established -> Idle
//!   R a        a BMP router connects from address a
//!   P a p v    on a new connection of router a (skipped if a never connected): Initiation (files sysName / sysDescr with the
//!              router's entry: states/initiating.rs), Peer Up of peer p, view v = 0 Adj-RIB-In | 1 Adj-RIB-Out | 2 Loc-RIB
//!   G p        a BGP session with peer p's address and AS reaches Established
//!   X w p v    an entry filed directly: parent w = u (the mrt unit) | b (the bmp unit) | router address a; peer p; RIB view v or -
//!   N k        update_info(the k-th id handed out, name)
//!   C w        ids_for_parent(w)
//! Observation: per op the id used (ids renamed by first appearance) and which fields its entry holds (unit parent addr
//! asn rib file name desc as `upasrfnd`, `-` where unset): `d:#1,#2 m:-pas-f--,-pas-f--`, `u:#1 m:-pas-f--`, `s:#1` / `s:none`,
//! `r:#3 m:-pa-----`, `p:#4 m:-pasr---`, `g:#5 m:--as--n-`, `x:#6`, `n`, `c:[#1,#2]`.
use crate::engines::c16::{bgp4mp_message, bgp4mp_state, bgp_update, pit_record, rib_record, scratch_root, POOL};
use crate::util::ops;
use rotonda::bgp::encode as enc;
use rotonda::comms::Gate;
use rotonda::ingress::{IngressInfo, Register};
use rotonda::payload::Update;
use rotonda::roto_runtime::types::RouteContext;
use rotonda::verif::bmp::{Session, StepOutcome};
use rotonda::verif::mrt_import::{Capture, MrtFileIn};
use routecore::bmp::message::{PeerType, RibType};
use std::net::{IpAddr, Ipv4Addr};
use std::sync::Arc;
use std::time::Duration;

/// the peers of this engine = these entries of c16's pool (IPv4 address 192.0.2.n, AS)
pub const PEERS: [usize; 5] = [0, 1, 2, 5, 7];

fn peer(p: usize) -> (IpAddr, u32) {
    let (a, s) = POOL[PEERS[p % PEERS.len()]];
    (IpAddr::V4(Ipv4Addr::new(192, 0, 2, a as u8)), s)
}
fn router_addr(a: u32) -> IpAddr { IpAddr::V4(Ipv4Addr::new(198, 51, 100, a as u8)) }
fn rib(v: u32) -> RibType { match v { 0 => RibType::AdjRibIn, 1 => RibType::AdjRibOut, _ => RibType::LocRib } }

struct W { reg: Arc<Register>, seen: Vec<u32> }
impl W {
    fn canon(&mut self, id: u32) -> String {
        match self.seen.iter().position(|x| *x == id) {
            Some(i) => format!("#{i}"),
            None => { self.seen.push(id); format!("#{}", self.seen.len() - 1) }
        }
    }
    fn mask(&self, id: u32) -> String {
        match self.reg.get(id) {
            None => "none".into(),
            Some(i) => [
                (i.unit_name.is_some(), 'u'), (i.parent_ingress.is_some(), 'p'), (i.remote_addr.is_some(), 'a'), (i.remote_asn.is_some(), 's'),
                (i.rib_type.is_some(), 'r'), (i.filename.is_some(), 'f'), (i.name.is_some(), 'n'), (i.desc.is_some(), 'd'),
            ].iter().map(|(b, c)| if *b { *c } else { '-' }).collect(),
        }
    }
}

fn update_ids(u: &Update) -> Vec<u32> {
    let ctx = |c: &RouteContext| match c {
        RouteContext::Mrt(c) => c.provenance().ingress_id,
        RouteContext::Fresh(c) => c.provenance().ingress_id,
        _ => u32::MAX,
    };
    match u {
        Update::Single(p) => vec![ctx(&p.context)],
        Update::Bulk(ps) => { let mut v: Vec<u32> = vec![]; for p in ps.iter() { let i = ctx(&p.context); if !v.contains(&i) { v.push(i) } } v }
        Update::Withdraw(id, _) => vec![*id],
        Update::WithdrawBulk(ids) => ids.to_vec(),
        _ => vec![],
    }
}

pub fn run_case(line: &str) -> String {
    let root = scratch_root().with_extension("u");
    let _ = std::fs::remove_dir_all(&root);
    std::fs::create_dir_all(&root).unwrap();
    let root = root.canonicalize().unwrap();
    let res = std::panic::catch_unwind(std::panic::AssertUnwindSafe(|| run_in(line, &root)));
    let _ = std::fs::remove_dir_all(&root);
    match res { Ok(s) => s, Err(e) => std::panic::resume_unwind(e) }
}

fn run_in(line: &str, root: &std::path::Path) -> String {
    let rt = tokio::runtime::Builder::new_multi_thread().worker_threads(2).enable_all().build().unwrap();
    let reg = Arc::new(rotonda::verif::ingress::new_register());
    let (gate, mut agent) = Gate::new(8);
    let mut link = agent.create_link();
    let capture = Capture::new(move |_u: Update| async move {});
    link.set_direct_update_target(capture.clone());
    // the real mrt-file-in unit: registers itself (first id), then runs its queue loop
    let cfg = MrtFileIn::verif_config(vec![], Some(root.to_path_buf()));
    let (unit, run_fut) = rt.block_on(cfg.verif_start("mrt-in", gate, reg.clone()));
    let runner = rt.spawn(run_fut);
    rt.block_on(async { link.connect(false).await }).expect("link connects");
    // BmpTcpIn::run: the bmp unit takes an id of its own (and files nothing under it)
    let bmp_unit = reg.verif_register();
    let mut w = W { reg: reg.clone(), seen: vec![] };
    w.canon(unit.parent_id);
    w.canon(bmp_unit);
    let mut routers: std::collections::BTreeMap<u32, u32> = Default::default();
    let mut out: Vec<String> = vec![];
    let mut nfiles = 0usize;

    // one file through the unit's queue; the ids the updates that left the gate were filed under, in order
    let mut import = |bytes: Vec<u8>, nfiles: &mut usize| -> Option<Vec<Vec<u32>>> {
        let path = root.join(format!("f{}.mrt", *nfiles));
        *nfiles += 1;
        std::fs::write(&path, bytes).unwrap();
        let tx = unit.queue_tx.clone();
        let answered = rt.block_on(async {
            let (otx, orx) = tokio::sync::oneshot::channel();
            if tx.send((path, Some(otx))).await.is_err() { return false; }
            matches!(tokio::time::timeout(Duration::from_secs(10), orx).await, Ok(Ok(_)))
        });
        if !answered { return None; }
        Some(capture.take().iter().map(update_ids).collect())
    };
    let parent_of = |tok: &str, routers: &std::collections::BTreeMap<u32, u32>| -> Option<u32> {
        match tok { "u" => Some(unit.parent_id), "b" => Some(bmp_unit), a => routers.get(&a.parse::<u32>().unwrap()).copied() }
    };

    for op in ops(line) {
        let n = |i: usize| op[i].parse::<u32>().unwrap();
        match op[0] {
            "D" => {
                let ps: Vec<usize> = op[1].split(',').map(|t| t.parse().unwrap()).collect();
                let mut bytes = pit_record(&ps.iter().map(|p| PEERS[*p % PEERS.len()]).collect::<Vec<_>>());
                let entries: Vec<(u16, u32)> = (0..ps.len()).map(|i| (i as u16, 1 + i as u32)).collect();
                bytes.extend_from_slice(&rib_record(0, 1, &entries, 1));
                match import(bytes, &mut nfiles) {
                    None => out.push("d:STUCK".into()),
                    Some(ups) => {
                        let ids: Vec<u32> = ups.iter().flat_map(|v| v.iter().copied()).collect();
                        if ids.len() != ps.len() { out.push(format!("d:?{}", ids.len())); continue; }
                        let names: Vec<String> = ids.iter().map(|i| w.canon(*i)).collect();
                        let masks: Vec<String> = ids.iter().map(|i| w.mask(*i)).collect();
                        out.push(format!("d:{}", names.join(",")));
                        out.push(format!("m:{}", masks.join(",")));
                    }
                }
            }
            "U" | "S" => {
                let p = n(1) as usize % PEERS.len();
                let bytes = if op[0] == "U" { bgp4mp_message(4, PEERS[p], &bgp_update(0, 7, &[1], 0, &[])) }
                            else { bgp4mp_state(4, PEERS[p], 6, 1) };
                match import(bytes, &mut nfiles) {
                    None => out.push(format!("{}:STUCK", op[0].to_lowercase())),
                    Some(ups) => {
                        let ids: Vec<u32> = ups.iter().flat_map(|v| v.iter().copied()).collect();
                        let t = op[0].to_lowercase();
                        match ids.as_slice() {
                            [] => { out.push(format!("{t}:none")); }
                            [id] => { let c = w.canon(*id); out.push(format!("{t}:{c}")); if op[0] == "U" { out.push(format!("m:{}", w.mask(*id))); } }
                            more => out.push(format!("{t}:?{}", more.len())),
                        }
                    }
                }
            }
            "R" => {
                // bmp-tcp-in unit.rs accept loop (the two calls, made here)
                let q = IngressInfo::new().with_parent(bmp_unit).with_remote_addr(router_addr(n(1)));
                let id = match reg.find_existing_bmp_router(&q) {
                    Some((id, _)) => id,
                    None => { let id = reg.verif_register(); reg.verif_update_info(id, q); id }
                };
                routers.insert(n(1), id);
                let c = w.canon(id);
                out.push(format!("r:{c}"));
                out.push(format!("m:{}", w.mask(id)));
            }
            "P" => {
                let Some(rid) = routers.get(&n(1)).copied() else { out.push("-".into()); continue; };
                let (a, s) = peer(n(2) as usize);
                let v = n(3);
                let pph = enc::PerPeerHeader {
                    peer_type: (if v == 2 { PeerType::LocalRibInstance } else { PeerType::GlobalInstance }).into(),
                    peer_flags: if v == 1 { 1 << 4 } else { 0 },
                    peer_distinguisher: [0; 8],
                    peer_address: a,
                    peer_as: inetnum::asn::Asn::from_u32(s),
                    peer_bgp_id: [0, 0, 0, 1],
                };
                // the real state machine of a new connection of that router
                let mut sess = Session::new(rid, reg.clone());
                let _ = sess.step(enc::mk_initiation_msg("r", "d"));
                let r = sess.step(enc::mk_peer_up_notification_msg(&pph, "10.0.0.1".parse().unwrap(), 11019, 4567, 111, 222, 0, 0, vec![], false));
                let ids: Vec<u32> = sess.peers().into_iter().map(|(_, id)| id).collect();
                match (r, ids.as_slice()) {
                    (StepOutcome::Invalid(e), _) => out.push(format!("p:invalid({})", e.replace(' ', "_"))),
                    (_, [id]) => { let c = w.canon(*id); out.push(format!("p:{c}")); out.push(format!("m:{}", w.mask(*id))); }
                    (_, other) => out.push(format!("p:?{}", other.len())),
                }
            }
            "G" => {
                // bgp-tcp-in: unit.rs accept loop register(), router_handler.rs on Established update_info(..)
                let (a, s) = peer(n(1) as usize);
                let id = reg.verif_register();
                reg.verif_update_info(id, IngressInfo::new().with_name("some-bgp-session".to_string()).with_remote_addr(a).with_remote_asn(inetnum::asn::Asn::from_u32(s)));
                let c = w.canon(id);
                out.push(format!("g:{c}"));
                out.push(format!("m:{}", w.mask(id)));
            }
            "X" => {
                let Some(par) = parent_of(op[1], &routers) else { out.push("-".into()); continue; };
                let (a, s) = peer(n(2) as usize);
                let mut i = IngressInfo::new().with_parent(par).with_remote_addr(a).with_remote_asn(inetnum::asn::Asn::from_u32(s));
                if op[3] != "-" { i = i.with_rib_type(rib(n(3))); }
                let id = reg.verif_register();
                reg.verif_update_info(id, i);
                let c = w.canon(id);
                out.push(format!("x:{c}"));
            }
            "N" => {
                if let Some(id) = w.seen.get(n(1) as usize).copied() { reg.verif_update_info(id, IngressInfo::new().with_name("n".to_string())); }
                out.push("n".into());
            }
            "C" => {
                let Some(par) = parent_of(op[1], &routers) else { out.push("-".into()); continue; };
                let mut l: Vec<usize> = reg.ids_for_parent(par).into_iter().map(|i| { let c = w.canon(i); c[1..].parse::<usize>().unwrap() }).collect();
                l.sort();
                out.push(format!("c:[{}]", l.iter().map(|i| format!("#{i}")).collect::<Vec<_>>().join(",")));
            }
            _ => panic!("bad op {:?}", op),
        }
    }
    rt.block_on(async { agent.terminate().await; let _ = tokio::time::timeout(Duration::from_secs(2), runner).await; });
    {
        let _g = rt.enter();
        drop(link);
        drop(unit);
        drop(capture);
    }
    rt.shutdown_background();
    out.join(" ")
}

pub fn special(_name: &str, _args: &[String]) -> bool { false }
