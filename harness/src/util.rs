use std::any::Any;

pub fn panic_msg(e: &Box<dyn Any + Send>) -> String {
    if let Some(s) = e.downcast_ref::<&str>() {
        s.to_string()
    } else if let Some(s) = e.downcast_ref::<String>() {
        s.clone()
    } else {
        "?".to_string()
    }
    .replace('\n', " ")
}

pub fn ops(line: &str) -> Vec<Vec<&str>> {
    line.split(';')
        .map(|s| s.split_whitespace().collect::<Vec<_>>())
        .filter(|v| !v.is_empty())
        .collect()
}

pub fn opt_tok<T>(t: &str, f: impl Fn(&str) -> T) -> Option<T> {
    if t == "-" { None } else { Some(f(t)) }
}
