From Coq Require Import List NArith Arith Bool Lia ZArith ZifyBool ZifyNat ZifyN.
Import ListNotations.
Ltac Zify.zify_post_hook ::= Z.div_mod_to_equations.
Local Open Scope N_scope.

Definition byte_ok (b : N) : bool := b <? 256.
Definition bytes_ok (l : list N) : bool := forallb byte_ok l.

(* a prefix on the wire: bit length + ceil(len/8) bytes (trailing bits checked elsewhere) *)
Definition nbytes (len : N) : nat := N.to_nat ((len + 7) / 8).
Record pfx := { plen : N; pbytes : list N }.
Definition pfx_wf (maxlen : N) (p : pfx) : bool :=
  (plen p <=? maxlen) && Nat.eqb (length (pbytes p)) (nbytes (plen p)) && bytes_ok (pbytes p).

Definition enc_pfx (p : pfx) : list N := plen p :: pbytes p.
Definition enc_pfxs (ps : list pfx) : list N := concat (map enc_pfx ps).

Fixpoint dec_pfxs (fuel : nat) (maxlen : N) (b : list N) : option (list pfx) :=
  match b with
  | [] => Some []
  | len :: rest =>
      match fuel with
      | O => None
      | S fuel' =>
          if len <=? maxlen then
            let n := nbytes len in
            if Nat.leb n (length rest) then
              match dec_pfxs fuel' maxlen (skipn n rest) with
              | Some ps => Some ({| plen := len; pbytes := firstn n rest |} :: ps)
              | None => None
              end
            else None
          else None
      end
  end.

Lemma dec_enc_pfxs maxlen ps : forall fuel,
  forallb (pfx_wf maxlen) ps = true ->
  (length ps <= fuel)%nat ->
  dec_pfxs fuel maxlen (enc_pfxs ps) = Some ps.
Proof.
  induction ps as [|p ps IH]; intros fuel Hwf Hf; cbn [enc_pfxs map concat].
  - destruct fuel; reflexivity.
  - cbn [forallb] in Hwf. apply andb_prop in Hwf as [Hp Hps].
    unfold pfx_wf in Hp. apply andb_prop in Hp as [Hp Hb]. apply andb_prop in Hp as [Hl Hn].
    apply Nat.eqb_eq in Hn.
    destruct fuel as [|fuel]; [cbn in Hf; lia|].
    unfold enc_pfx at 1. cbn [app dec_pfxs]. rewrite Hl.
    fold (enc_pfxs ps).
    rewrite app_length, <- Hn.
    replace (Nat.leb (length (pbytes p)) (length (pbytes p) + length (enc_pfxs ps))) with true
      by (symmetry; apply Nat.leb_le; lia).
    rewrite skipn_app, Nat.sub_diag, skipn_all, firstn_app, Nat.sub_diag, firstn_all.
    cbn [skipn firstn app]. rewrite app_nil_r.
    rewrite IH by (try assumption; cbn in Hf; lia).
    destruct p; reflexivity.
Qed.

(* big-endian u16 *)
Definition enc_u16 (n : N) : list N := [n / 256; n mod 256].
Definition dec_u16 (b : list N) : option (N * list N) :=
  match b with hi :: lo :: r => Some (hi * 256 + lo, r) | _ => None end.
Lemma dec_enc_u16 n r : n < 65536 -> dec_u16 (enc_u16 n ++ r) = Some (n, r).
Proof. intros H. cbn. f_equal. f_equal. lia. Qed.

(* a length-prefixed section *)
Definition enc_section (ps : list pfx) : list N :=
  let body := enc_pfxs ps in enc_u16 (N.of_nat (length body)) ++ body.
Definition dec_section (maxlen : N) (b : list N) : option (list pfx * list N) :=
  match dec_u16 b with
  | Some (n, r) =>
      let n' := N.to_nat n in
      if Nat.leb n' (length r) then
        match dec_pfxs n' maxlen (firstn n' r) with
        | Some ps => Some (ps, skipn n' r)
        | None => None
        end
      else None
  | None => None
  end.

Lemma enc_pfxs_len_ge ps maxlen : forallb (pfx_wf maxlen) ps = true -> (length ps <= length (enc_pfxs ps))%nat.
Proof.
  induction ps as [|p ps IH]; cbn [forallb enc_pfxs map concat length]; intros H; [lia|].
  apply andb_prop in H as [_ H]. rewrite app_length. cbn [enc_pfx length].
  specialize (IH H). unfold enc_pfxs in IH. lia.
Qed.

Theorem section_roundtrip maxlen ps rest :
  forallb (pfx_wf maxlen) ps = true ->
  N.of_nat (length (enc_pfxs ps)) < 65536 ->
  dec_section maxlen (enc_section ps ++ rest) = Some (ps, rest).
Proof.
  intros Hwf Hlen. unfold dec_section, enc_section.
  rewrite <- app_assoc, dec_enc_u16 by exact Hlen.
  rewrite Nat2N.id, app_length.
  replace (Nat.leb (length (enc_pfxs ps)) (length (enc_pfxs ps) + length rest)) with true
    by (symmetry; apply Nat.leb_le; lia).
  rewrite firstn_app, Nat.sub_diag, firstn_all. cbn [firstn]. rewrite app_nil_r.
  rewrite dec_enc_pfxs by (try assumption; eapply enc_pfxs_len_ge; eassumption).
  rewrite skipn_app, Nat.sub_diag, skipn_all. reflexivity.
Qed.
Print Assumptions section_roundtrip.
