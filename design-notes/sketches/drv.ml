open Ribx
let rec n_of_int i = if i = 0 then N0 else Npos (pos_of_int i)
and pos_of_int i = if i = 1 then XH else if i land 1 = 0 then XO (pos_of_int (i lsr 1)) else XI (pos_of_int (i lsr 1))
let () =
  let p = (n_of_int 16, [true;false;true]) in
  let h = ref [] in
  for i = 1 to 20000 do
    let m = n_of_int (1 + i mod 5) in
    let e = match i mod 3 with 0 -> Ann (p, m, n_of_int i) | 1 -> Wdr (p, m) | _ -> if i mod 50 = 2 then Down m else Ann (p, m, n_of_int i) in
    h := e :: !h
  done;
  let h = List.rev !h in
  let a = run h p (n_of_int 2) and b = spec h p (n_of_int 2) None false in
  print_endline (if a = b then "agree" else "DISAGREE");
  (match a with Some (Active, _) -> print_endline "active" | Some (Withdrawn, _) -> print_endline "withdrawn" | None -> print_endline "none")
