From Coq Require Import List Arith Bool Lia.
Import ListNotations.

(* slots, publishers and sequence numbers are nats *)
Inductive pstate :=
| PIdle (next : nat)
| PSending (seq : nat) (snap rest : list nat).   (* snapshot taken at begin; slots still to serve *)

Record st := {
  subs : list nat;                      (* the shared `updates` map: slots, NoDup *)
  pub : nat -> pstate;
  delivered : list (nat * nat * nat);   (* (slot, publisher, seq), newest first *)
  completed : list (nat * nat * list nat) (* ghost: (publisher, seq, snapshot) of finished updates *)
}.

Inductive action :=
| ASub (s : nat) | AUnsub (s : nat)
| ABegin (p : nat) | ADeliver (p : nat) | AEnd (p : nat).

Definition updp (f : nat -> pstate) (p : nat) (x : pstate) : nat -> pstate :=
  fun q => if Nat.eqb p q then x else f q.

Definition memb (x : nat) (l : list nat) : bool := existsb (Nat.eqb x) l.

Definition step (s : st) (a : action) : st :=
  match a with
  | ASub x => if memb x (subs s) then s
              else {| subs := subs s ++ [x]; pub := pub s; delivered := delivered s; completed := completed s |}
  | AUnsub x => {| subs := filter (fun y => negb (Nat.eqb x y)) (subs s); pub := pub s;
                   delivered := delivered s; completed := completed s |}
  | ABegin p => match pub s p with
                | PIdle n => {| subs := subs s; pub := updp (pub s) p (PSending n (subs s) (subs s));
                                delivered := delivered s; completed := completed s |}
                | _ => s end
  | ADeliver p => match pub s p with
                  | PSending n snap (x :: rest) =>
                      {| subs := subs s; pub := updp (pub s) p (PSending n snap rest);
                         delivered := (x, p, n) :: delivered s; completed := completed s |}
                  | _ => s end
  | AEnd p => match pub s p with
              | PSending n snap [] =>
                  {| subs := subs s; pub := updp (pub s) p (PIdle (S n));
                     delivered := delivered s; completed := (p, n, snap) :: completed s |}
              | _ => s end
  end.

Definition init : st := {| subs := []; pub := fun _ => PIdle 0; delivered := []; completed := [] |}.
Definition run (tr : list action) : st := fold_left step tr init.

(* seqs delivered to slot x by publisher p, newest first *)
Definition seqs_of (x p : nat) (d : list (nat * nat * nat)) : list nat :=
  map (fun e => snd e) (filter (fun e => Nat.eqb (fst (fst e)) x && Nat.eqb (snd (fst e)) p) d).

Fixpoint strictly_desc (l : list nat) : Prop :=
  match l with
  | [] => True
  | a :: l' => (match l' with [] => True | b :: _ => b < a end) /\ strictly_desc l'
  end.

Definition bound (p : nat) (ps : pstate) (d : list (nat*nat*nat)) : Prop :=
  match ps with
  | PIdle n => forall x m, In (x, p, m) d -> m < n
  | PSending n snap rest =>
      NoDup rest /\ incl rest snap /\
      (forall x m, In (x, p, m) d -> m <= n) /\
      (forall x, In x rest -> ~ In (x, p, n) d) /\
      (forall x, In x snap -> In x rest \/ In (x, p, n) d)
  end.

Definition Inv (s : st) : Prop :=
  NoDup (subs s) /\
  (forall p, bound p (pub s p) (delivered s)) /\
  (forall x p, strictly_desc (seqs_of x p (delivered s))) /\
  (forall p n snap, In (p, n, snap) (completed s) -> forall x, In x snap -> In (x, p, n) (delivered s)).

Lemma memb_In x l : memb x l = true <-> In x l.
Proof. unfold memb. rewrite existsb_exists. split.
  - intros (y & Hy & E). apply Nat.eqb_eq in E. subst. exact Hy.
  - intros H. exists x. split; [exact H|apply Nat.eqb_refl]. Qed.

Lemma NoDup_filter {A} (f : A -> bool) l : NoDup l -> NoDup (filter f l).
Proof. induction 1 as [|a l Hn Hd IH]; cbn; [constructor|].
  destruct (f a); [constructor; [rewrite filter_In; tauto|exact IH]|exact IH]. Qed.

Lemma seqs_head_le x p d n :
  (forall y m, In (y, p, m) d -> m <= n) ->
  match seqs_of x p d with [] => True | b :: _ => b <= n end.
Proof.
  intros H. unfold seqs_of. induction d as [|[[y q] m] d IH]; cbn; [exact I|].
  destruct (Nat.eqb y x && Nat.eqb q p) eqn:E.
  - cbn. apply andb_prop in E as [E1 E2]. apply Nat.eqb_eq in E1, E2. subst.
    apply (H x m). left. reflexivity.
  - apply IH. intros y' m' Hin. apply (H y' m'). right. exact Hin.
Qed.

Lemma seqs_not_eq x p d n :
  ~ In (x, p, n) d -> (forall y m, In (y, p, m) d -> m <= n) ->
  match seqs_of x p d with [] => True | b :: _ => b < n end.
Proof.
  intros Hn H. unfold seqs_of. induction d as [|[[y q] m] d IH]; cbn; [exact I|].
  destruct (Nat.eqb y x && Nat.eqb q p) eqn:E.
  - cbn. apply andb_prop in E as [E1 E2]. apply Nat.eqb_eq in E1, E2. subst.
    assert (m <= n) by (apply (H x m); left; reflexivity).
    assert (m <> n) by (intros ->; apply Hn; left; reflexivity). lia.
  - apply IH; [intros Hin; apply Hn; right; exact Hin|].
    intros y' m' Hin. apply (H y' m'). right. exact Hin.
Qed.

Lemma NoDup_snoc (l : list nat) x : NoDup l -> ~ In x l -> NoDup (l ++ [x]).
Proof.
  induction 1 as [|a l Hn Hd IH]; intros Hx; cbn.
  - constructor; [intros []|constructor].
  - constructor.
    + rewrite in_app_iff. intros [H|[H|[]]]; [exact (Hn H)|subst; apply Hx; left; reflexivity].
    + apply IH. intros H. apply Hx. right. exact H.
Qed.

Lemma bound_other p q x n ps d : p <> q -> bound q ps d -> bound q ps ((x, p, n) :: d).
Proof.
  intros Hpq. destruct ps as [m|m snap rest]; cbn [bound].
  - intros H y k [E|Hin]; [inversion E; subst; contradiction|exact (H y k Hin)].
  - intros (H1 & H2 & H3 & H4 & H5). repeat split; try assumption.
    + intros y k [E|Hin]; [inversion E; subst; contradiction|exact (H3 y k Hin)].
    + intros y Hy [E|Hin]; [inversion E; subst; contradiction|exact (H4 y Hy Hin)].
    + intros y Hy. destruct (H5 y Hy) as [?|?]; [left; assumption|right; right; assumption].
Qed.

Lemma seqs_cons_other x p y q n d :
  (y, q) <> (x, p) -> seqs_of x p ((y, q, n) :: d) = seqs_of x p d.
Proof.
  intros H. unfold seqs_of. cbn.
  destruct (Nat.eqb y x && Nat.eqb q p) eqn:E; [|reflexivity].
  apply andb_prop in E as [E1 E2]. apply Nat.eqb_eq in E1, E2. subst. contradiction.
Qed.

Lemma seqs_cons_same x p n d : seqs_of x p ((x, p, n) :: d) = n :: seqs_of x p d.
Proof. unfold seqs_of. cbn. rewrite !Nat.eqb_refl. reflexivity. Qed.

Lemma inv_step s a : Inv s -> Inv (step s a).
Proof.
  intros (Hnd & Hb & Hs & Hc). destruct a as [x|x|p|p|p]; cbn [step].
  - (* subscribe *)
    destruct (memb x (subs s)) eqn:E; [repeat split; assumption|].
    repeat split; cbn [subs pub delivered completed]; try assumption.
    apply NoDup_snoc; [exact Hnd|]. rewrite <- memb_In, E. discriminate.
  - (* unsubscribe *)
    repeat split; cbn [subs pub delivered completed]; try assumption.
    apply NoDup_filter, Hnd.
  - (* begin *)
    destruct (pub s p) as [n|n snap rest] eqn:Ep; [|repeat split; assumption].
    repeat split; cbn [subs pub delivered completed]; try assumption.
    intros q. unfold updp. destruct (Nat.eqb p q) eqn:Epq; [|apply Hb].
    apply Nat.eqb_eq in Epq. subst q. specialize (Hb p). rewrite Ep in Hb. cbn in Hb.
    cbn [bound]. repeat split.
    + exact Hnd.
    + apply incl_refl.
    + intros y m Hin. specialize (Hb y m Hin). lia.
    + intros y _ Hin. specialize (Hb y n Hin). lia.
    + intros y Hy. left. exact Hy.
  - (* deliver *)
    destruct (pub s p) as [n|n snap [|x rest]] eqn:Ep; try (repeat split; assumption).
    pose proof (Hb p) as Hbp. rewrite Ep in Hbp. cbn [bound] in Hbp.
    destruct Hbp as (Hnr & Hincl & Hle & Hnot & Hcov).
    repeat split; cbn [subs pub delivered completed]; try assumption.
    + intros q. unfold updp. destruct (Nat.eqb p q) eqn:Epq.
      * apply Nat.eqb_eq in Epq. subst q. cbn [bound]. repeat split.
        -- inversion Hnr; assumption.
        -- intros y Hy. apply Hincl. right. exact Hy.
        -- intros y m [E|Hin]; [inversion E; subst; lia|exact (Hle y m Hin)].
        -- intros y Hy [E|Hin].
           ++ inversion E; subst. inversion Hnr; contradiction.
           ++ apply (Hnot y); [right; exact Hy|exact Hin].
        -- intros y Hy. destruct (Hcov y Hy) as [[->|Hr]|Hd].
           ++ right. left. reflexivity.
           ++ left. exact Hr.
           ++ right. right. exact Hd.
      * apply Nat.eqb_neq in Epq. apply bound_other; [exact Epq|apply Hb].
    + intros y q. destruct (Nat.eq_dec y x) as [->|Hyx]; [destruct (Nat.eq_dec q p) as [->|Hqp]|].
      * rewrite seqs_cons_same. cbn [strictly_desc]. split; [|apply Hs].
        pose proof (seqs_not_eq x p (delivered s) n (Hnot x (or_introl eq_refl)) Hle) as H.
        destruct (seqs_of x p (delivered s)); [exact I|exact H].
      * rewrite seqs_cons_other by congruence. apply Hs.
      * rewrite seqs_cons_other by congruence. apply Hs.
    + intros q m snap' Hin y Hy. right. exact (Hc q m snap' Hin y Hy).
  - (* end *)
    destruct (pub s p) as [n|n snap [|x rest]] eqn:Ep; try (repeat split; assumption).
    pose proof (Hb p) as Hbp. rewrite Ep in Hbp. cbn [bound] in Hbp.
    destruct Hbp as (Hnr & Hincl & Hle & Hnot & Hcov).
    repeat split; cbn [subs pub delivered completed]; try assumption.
    + intros q. unfold updp. destruct (Nat.eqb p q) eqn:Epq; [|apply Hb].
      apply Nat.eqb_eq in Epq. subst q. cbn [bound]. intros y m Hin.
      specialize (Hle y m Hin). lia.
    + intros q m snap' [E|Hin] y Hy.
      * inversion E; subst. destruct (Hcov y Hy) as [[]|Hd]. exact Hd.
      * exact (Hc q m snap' Hin y Hy).
Qed.

Lemma inv_init : Inv init.
Proof.
  repeat split; cbn.
  - constructor.
  - intros p x m [].
  - intros p n snap [].
Qed.

Theorem gate_safety tr : Inv (run tr).
Proof.
  unfold run. generalize init, inv_init.
  induction tr as [|a tr IH]; intros s Hs; cbn [fold_left]; [exact Hs|].
  apply IH, inv_step, Hs.
Qed.

(* what a reader wants: per (link, publisher) strictly increasing delivery (no loss of
   order, no duplicate), and every finished update reached every slot that was subscribed
   when it began *)
Corollary at_most_once_in_order tr x p : strictly_desc (seqs_of x p (delivered (run tr))).
Proof. exact (proj1 (proj2 (proj2 (gate_safety tr))) x p). Qed.
Corollary finished_updates_reached_their_snapshot tr p n snap x :
  In (p, n, snap) (completed (run tr)) -> In x snap -> In (x, p, n) (delivered (run tr)).
Proof. intros H Hx. exact (proj2 (proj2 (proj2 (gate_safety tr))) p n snap H x Hx). Qed.
Print Assumptions finished_updates_reached_their_snapshot.
