From stdpp Require Import gmap.
From Coq Require Import NArith List.
Import ListNotations.

Inductive status := Active | Withdrawn.
#[global] Instance status_eq_dec : EqDecision status. Proof. solve_decision. Defined.

Definition prefix := (N * list bool)%type.
Definition mui := N.
Definition attrs := N.
Definition key := (prefix * mui)%type.

Record rib := { recs : gmap key (status * attrs); wd : gset mui }.

Inductive ev :=
| Ann (p : prefix) (m : mui) (a : attrs)
| Wdr (p : prefix) (m : mui)
| Down (m : mui).

Definition step (r : rib) (e : ev) : rib :=
  match e with
  | Ann p m a => {| recs := <[ (p,m) := (Active, a) ]> (recs r); wd := wd r |}
  | Wdr p m =>
      match recs r !! (p,m) with
      | Some (_, a) => {| recs := <[ (p,m) := (Withdrawn, a) ]> (recs r); wd := wd r |}
      | None => r
      end
  | Down m => {| recs := recs r; wd := {[ m ]} ∪ wd r |}
  end.

Definition query (r : rib) (p : prefix) (m : mui) : option (status * attrs) :=
  match recs r !! (p,m) with
  | Some (s, a) => Some (if bool_decide (m ∈ wd r) then Withdrawn else s, a)
  | None => None
  end.

(* spec: last event semantics, with Down sticky (models current code) *)
Fixpoint spec (h : list ev) (p : prefix) (m : mui) (acc : option (status*attrs)) (down : bool)
  : option (status * attrs) :=
  match h with
  | [] => match acc with Some (s,a) => Some (if down then Withdrawn else s, a) | None => None end
  | Ann p' m' a :: h' =>
      if bool_decide ((p',m') = (p,m)) then spec h' p m (Some (Active,a)) down else spec h' p m acc down
  | Wdr p' m' :: h' =>
      if bool_decide ((p',m') = (p,m)) then spec h' p m (match acc with Some (_,a) => Some (Withdrawn,a) | None => None end) down
      else spec h' p m acc down
  | Down m' :: h' => spec h' p m acc (down || bool_decide (m' = m))
  end.

Definition init : rib := {| recs := ∅; wd := ∅ |}.

Lemma run_spec_gen h : forall r p m,
  query (fold_left step h r) p m
  = spec h p m (recs r !! (p,m)) (bool_decide (m ∈ wd r)).
Proof.
  induction h as [|e h IH]; intros r p m; cbn [fold_left spec].
  - unfold query. destruct (recs r !! (p,m)) as [[s a]|]; reflexivity.
  - rewrite IH. destruct e as [p' m' a|p' m'|m']; cbn [step recs wd].
    + destruct (decide ((p',m') = (p,m))) as [Heq|Hne].
      * rewrite (bool_decide_true _ Heq). inversion Heq; subst.
        rewrite lookup_insert. reflexivity.
      * rewrite (bool_decide_false _ Hne).
        rewrite lookup_insert_ne by exact Hne. reflexivity.
    + destruct (decide ((p',m') = (p,m))) as [Heq|Hne].
      * rewrite (bool_decide_true _ Heq). inversion Heq; subst.
        destruct (recs r !! (p,m)) as [[s a]|] eqn:E; cbn [recs wd].
        -- rewrite lookup_insert. reflexivity.
        -- rewrite E. reflexivity.
      * rewrite (bool_decide_false _ Hne).
        destruct (recs r !! (p',m')) as [[s a]|] eqn:E; cbn [recs wd].
        -- rewrite lookup_insert_ne by exact Hne. reflexivity.
        -- reflexivity.
    + f_equal. destruct (decide (m' = m)) as [->|Hne].
      * rewrite (bool_decide_true (m = m)) by reflexivity.
        rewrite orb_true_r. apply bool_decide_true. set_solver.
      * rewrite (bool_decide_false (m' = m)) by exact Hne.
        rewrite orb_false_r. apply bool_decide_ext. set_solver.
Qed.

Theorem run_spec h p m : query (fold_left step h init) p m = spec h p m None false.
Proof. rewrite run_spec_gen. cbn. rewrite lookup_empty. f_equal. Qed.
Print Assumptions run_spec.
