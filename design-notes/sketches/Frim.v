From Coq Require Import List Arith Bool Lia.
Import ListNotations.

Definition K := nat. Definition V := nat.
Definition vec := list (K * V).

Inductive op := OIns (k : K) (v : V) | ORem (k : K) | OGet (k : K).
Inductive ret := RUnit | ROpt (o : option V).

Fixpoint lookup_v (k : K) (l : vec) : option V :=
  match l with
  | [] => None
  | (k', v) :: l' => if Nat.eqb k k' then Some v else lookup_v k l'
  end.
Fixpoint remove_first (k : K) (l : vec) : vec :=
  match l with
  | [] => []
  | (k', v) :: l' => if Nat.eqb k k' then l' else (k', v) :: remove_first k l'
  end.

(* the sequential specification *)
Definition spec (o : op) (l : vec) : vec * ret :=
  match o with
  | OIns k v => (filter (fun kv => negb (Nat.eqb k (fst kv))) l ++ [(k, v)], RUnit)
  | ORem k => (remove_first k l, ROpt (lookup_v k l))
  | OGet k => (l, ROpt (lookup_v k l))
  end.

(* the closure the implementation runs inside rcu; [sticky] is the variable
   captured from outside the closure. [fixed = true] resets it first. *)
Definition closure (fixed : bool) (o : op) (sticky : option V) (l : vec) : vec * ret * option V :=
  match o with
  | OIns k v => (fst (spec o l), RUnit, sticky)
  | ORem k =>
      let found := match lookup_v k l with
                   | Some v => Some v
                   | None => if fixed then None else sticky
                   end in
      (remove_first k l, ROpt found, found)
  | OGet k => (l, ROpt (lookup_v k l), sticky)
  end.

Inductive tstate :=
| Idle
| Start (o : op) (sticky : option V)
| Computed (o : op) (s : nat) (snap new : vec) (r : ret) (sticky : option V)
| Done (o : op) (r : ret).

Record st := { stamp : nat; cur : vec; thr : nat -> tstate; ghost : list (op * ret) }.

Definition upd (f : nat -> tstate) (t : nat) (x : tstate) : nat -> tstate :=
  fun t' => if Nat.eqb t t' then x else f t'.

Inductive action := ACall (o : op) | AStep | AReturn.

Definition is_read (o : op) : bool := match o with OGet _ => true | _ => false end.

Definition step (fixed : bool) (s : st) (t : nat) (a : action) : st :=
  match a, thr s t with
  | ACall o, Idle => {| stamp := stamp s; cur := cur s; thr := upd (thr s) t (Start o None); ghost := ghost s |}
  | AStep, Start o sticky =>
      if is_read o then
        let '(_, r, _) := closure fixed o sticky (cur s) in
        {| stamp := stamp s; cur := cur s; thr := upd (thr s) t (Done o r); ghost := ghost s ++ [(o, r)] |}
      else
        let '(new, r, sticky') := closure fixed o sticky (cur s) in
        {| stamp := stamp s; cur := cur s;
           thr := upd (thr s) t (Computed o (stamp s) (cur s) new r sticky'); ghost := ghost s |}
  | AStep, Computed o s0 snap new r sticky =>
      if Nat.eqb s0 (stamp s) then
        {| stamp := S (stamp s); cur := new; thr := upd (thr s) t (Done o r); ghost := ghost s ++ [(o, r)] |}
      else
        {| stamp := stamp s; cur := cur s; thr := upd (thr s) t (Start o sticky); ghost := ghost s |}
  | AReturn, Done _ _ => {| stamp := stamp s; cur := cur s; thr := upd (thr s) t Idle; ghost := ghost s |}
  | _, _ => s
  end.

Definition init : st := {| stamp := 0; cur := []; thr := fun _ => Idle; ghost := [] |}.

Definition run (fixed : bool) (sched : list (nat * action)) : st :=
  fold_left (fun s ta => step fixed s (fst ta) (snd ta)) sched init.

(* replay of the ghost (linearisation) history against the sequential spec *)
Fixpoint replay (h : list (op * ret)) (l : vec) : option vec :=
  match h with
  | [] => Some l
  | (o, r) :: h' =>
      let '(l', r') := spec o l in
      if match r, r' with
         | RUnit, RUnit => true
         | ROpt a, ROpt b => match a, b with
                             | None, None => true
                             | Some x, Some y => Nat.eqb x y
                             | _, _ => false end
         | _, _ => false end
      then replay h' l' else None
  end.

Lemma replay_app h1 h2 l :
  replay (h1 ++ h2) l = match replay h1 l with Some l' => replay h2 l' | None => None end.
Proof.
  revert l; induction h1 as [|[o r] h1 IH]; intros l; cbn [app replay]; [reflexivity|].
  destruct (spec o l) as [l' r']. destruct (match r with RUnit => _ | ROpt _ => _ end); [apply IH|reflexivity].
Qed.

Lemma replay_one o l : replay [(o, snd (spec o l))] l = Some (fst (spec o l)).
Proof.
  cbn [replay]. destruct (spec o l) as [l' r'] eqn:E; cbn [fst snd].
  destruct r' as [|[x|]]; cbn; rewrite ?Nat.eqb_refl; reflexivity.
Qed.

Definition Inv (s : st) : Prop :=
  replay (ghost s) [] = Some (cur s) /\
  forall t, match thr s t with
            | Computed o s0 snap new r _ =>
                s0 <= stamp s /\ (s0 = stamp s -> snap = cur s) /\ (new, r) = spec o snap
            | _ => True
            end.

Lemma closure_fixed_spec o sticky l :
  let '(new, r, _) := closure true o sticky l in (new, r) = spec o l.
Proof. destruct o; cbn; try reflexivity. destruct (lookup_v k l); reflexivity. Qed.

Lemma inv_step s t a : Inv s -> Inv (step true s t a).
Proof.
  intros [Hg Ht]. unfold step.
  destruct a as [o| |]; destruct (thr s t) eqn:Et; try (split; assumption).
  - (* call *) split; [exact Hg|]. intros t'. cbn [thr]. unfold upd.
    destruct (Nat.eqb t t'); [exact I|apply Ht].
  - (* start -> read or computed *)
    pose proof (closure_fixed_spec o sticky (cur s)) as Hc.
    destruct (closure true o sticky (cur s)) as [[new r] st'].
    destruct (is_read o) eqn:Er.
    + split.
      * cbn [ghost cur]. rewrite replay_app, Hg.
        destruct o; try discriminate. cbn in Hc. inversion Hc; subst.
        apply (replay_one (OGet k) (cur s)).
      * intros t'. cbn [thr stamp cur]. unfold upd.
        destruct (Nat.eqb t t'); [exact I|apply Ht].
    + split; [exact Hg|]. intros t'. cbn [thr stamp cur]. unfold upd.
      destruct (Nat.eqb t t') eqn:E; [|apply Ht].
      split; [lia|]. split; [reflexivity|exact Hc].
  - (* computed -> CAS *)
    specialize (Ht t) as Hthis. rewrite Et in Hthis. destruct Hthis as (Hle & Hsnap & Hspec).
    destruct (Nat.eqb s0 (stamp s)) eqn:Es.
    + apply Nat.eqb_eq in Es. specialize (Hsnap Es). subst snap.
      split.
      * cbn [ghost cur]. rewrite replay_app, Hg.
        pose proof (replay_one o (cur s)) as R. rewrite <- Hspec in R. exact R.
      * intros t'. cbn [thr stamp cur]. unfold upd.
        destruct (Nat.eqb t t') eqn:E; [exact I|].
        specialize (Ht t'). destruct (thr s t'); try exact I.
        destruct Ht as (Hle' & _ & Hsp'). split; [lia|]. split; [lia|exact Hsp'].
    + split; [exact Hg|]. intros t'. cbn [thr stamp cur]. unfold upd.
      destruct (Nat.eqb t t'); [exact I|apply Ht].
  - (* return *) split; [exact Hg|]. intros t'. cbn [thr]. unfold upd.
    destruct (Nat.eqb t t'); [exact I|apply Ht].
Qed.

Theorem linearizable_fixed sched :
  replay (ghost (run true sched)) [] = Some (cur (run true sched)).
Proof.
  assert (H : Inv (run true sched)).
  { unfold run. generalize init, (conj (eq_refl : replay (ghost init) [] = Some (cur init))
      (fun t : nat => I) : Inv init).
    induction sched as [|[t a] sc IH]; intros s Hs; cbn [fold_left]; [exact Hs|].
    apply IH, inv_step, Hs. }
  exact (proj1 H).
Qed.
Print Assumptions linearizable_fixed.

(* the code as it is today: the sticky variable breaks it *)
Definition bad_sched : list (nat * action) :=
  [ (0, ACall (OIns 1 7)); (0, AStep); (0, AStep); (0, AReturn);
    (1, ACall (ORem 1)); (2, ACall (ORem 1));
    (1, AStep);            (* A loads [1:=7], found = Some 7 *)
    (2, AStep); (2, AStep);(* B loads, CAS succeeds, returns Some 7 *)
    (1, AStep);            (* A: CAS fails *)
    (1, AStep); (1, AStep) (* A: recompute on [], found still Some 7; CAS succeeds *) ].
Theorem double_remove_refuted :
  replay (ghost (run false bad_sched)) [] = None /\
  ghost (run false bad_sched) = [(OIns 1 7, RUnit); (ORem 1, ROpt (Some 7)); (ORem 1, ROpt (Some 7))].
Proof. vm_compute. split; reflexivity. Qed.
