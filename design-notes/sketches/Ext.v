From Coq Require Import ExtrOcamlBasic.
From stdpp Require Import gmap.
Require Import Rib.
Definition run (h : list ev) (p : Rib.prefix) (m : mui) := query (fold_left step h init) p m.
Extraction "ribx.ml" run spec.
